import Pw.Props.TieFraming
/-
  TIE THEOREMS, part 3: `Reader.Slurp` (the skipping loop) and the remaining cases of
  `Reader.ReadTypedMsg` (oversized message, incomplete stream) against `readItem`/`readBody`.
-/
namespace Pw.Tie
open Pw Pw.Go

/-! ### what a call may change besides the window: nothing but the allocator, and that only by
    entries no larger than `max Max 4096` -/

/-- `w'` differs from `w` outside `src` and `reader.Msg` only by allocations of bounded capacity -/
structure Frame (bound : Nat) (w w' : World) : Prop where
  fin : w'.fin = w.fin
  writer : w'.writer = w.writer
  sink : w'.sink = w.sink
  wleft : w'.wleft = w.wleft
  junk : w'.junk = w.junk
  max : w'.reader.MaxMessageSize = w.reader.MaxMessageSize
  header : w'.reader.header = w.reader.header
  allocs : ∃ extra, w'.allocs = extra ++ w.allocs ∧ ∀ c ∈ extra, c ≤ bound

theorem Frame.refl (B : Nat) (w : World) : Frame B w w :=
  ⟨rfl, rfl, rfl, rfl, rfl, rfl, rfl, ⟨[], rfl, by simp⟩⟩

theorem Frame.trans {B : Nat} {w1 w2 w3 : World} (h1 : Frame B w1 w2) (h2 : Frame B w2 w3) : Frame B w1 w3 := by
  obtain ⟨e1, he1, hb1⟩ := h1.allocs
  obtain ⟨e2, he2, hb2⟩ := h2.allocs
  refine ⟨h2.fin.trans h1.fin, h2.writer.trans h1.writer, h2.sink.trans h1.sink, h2.wleft.trans h1.wleft,
    h2.junk.trans h1.junk, h2.max.trans h1.max, h2.header.trans h1.header, ⟨e2 ++ e1, ?_, ?_⟩⟩
  · rw [he2, he1, List.append_assoc]
  · intro c hc
    rcases List.mem_append.mp hc with h | h
    · exact hb2 c h
    · exact hb1 c h

/-- the capacity bound for everything `Slurp` allocates -/
def allocBound (w : World) : Nat := max w.reader.MaxMessageSize.toNat 4096

theorem resetSpec_allocs (k : Nat) (w : World) :
    (resetSpec k w).allocs = w.allocs ∨ (resetSpec k w).allocs = (if k < 4096 then 4096 else k) :: w.allocs := by
  unfold resetSpec; simp only [setMsg]; split <;> split <;> simp

theorem resetSpec_Frame (k B : Nat) (w : World) (hk : (if k < 4096 then 4096 else k) ≤ B) :
    Frame B w (resetSpec k w) := by
  obtain ⟨_, h2, h3, h4, h5, h6, h7, h8⟩ := resetSpec_frame k w
  refine ⟨h2, h3, h4, h5, h6, h7, h8, ?_⟩
  rcases resetSpec_allocs k w with h | h
  · exact ⟨[], by simp [h], by simp⟩
  · exact ⟨[if k < 4096 then 4096 else k], by simp [h], by simpa using hk⟩

/-- the world after the window (already `reset`) has been overwritten with `d` and the stream advanced -/
def afterRead (w1 : World) (d s : Bytes) : World :=
  { setMsg w1 { w1.reader.Msg with data := d } with src := s }

theorem afterRead_ok (w1 : World) (d s : Bytes) (ok : ReaderOK w1) (hd : d.length = w1.reader.Msg.data.length) :
    ReaderOK (afterRead w1 d s) := by
  obtain ⟨wf, nk, hh, hm⟩ := ok
  refine ⟨?_, ?_, hh, hm⟩
  · unfold Sl.WF at *; simp [afterRead, setMsg]; omega
  · unfold Sl.NilOK at *
    intro hn
    have := nk hn
    simp [afterRead, setMsg] at *
    refine ⟨this.1, ?_⟩
    rw [this.2] at hd
    exact List.eq_nil_of_length_eq_zero hd

theorem afterRead_Frame (B : Nat) (w1 : World) (d s : Bytes) : Frame B w1 (afterRead w1 d s) :=
  ⟨rfl, rfl, rfl, rfl, rfl, rfl, rfl, ⟨[], rfl, by simp⟩⟩

theorem resetSpec_ok (k : Nat) (w : World) (ok : ReaderOK w) (hk : k < 4611686018427387904) :
    ReaderOK (resetSpec k w) ∧ (resetSpec k w).reader.Msg.data.length = k := by
  obtain ⟨_, h1, h2, h3⟩ := resetSpec_heap k w [] ok.wf ok.nilok hk
  obtain ⟨_, _, _, _, _, _, h7, h8⟩ := resetSpec_frame k w
  exact ⟨⟨h1, h2, by rw [h8]; exact ok.hdr, by rw [h7]; exact ok.max⟩, h3⟩

/-! ### one iteration of the loop -/

/-- the body of `Slurp`'s loop for a chunk of `reading` bytes (both branches of the `if reading > Max` are this) -/
def slurpBody (fuel : Nat) (size remaining reading : Int) (w : World) : Out (Option Err) :=
  (Trans.Reader_reset reading w).bind fun _ w =>
  (ioReadFullSl w.reader.Msg w).bind fun t2 w =>
  let w := { w with reader := { w.reader with Msg := t2.1 } }
  let n := t2.2.1
  let err := t2.2.2
  if err = some Err.eof then .ok (some Err.unexpectedEOF) w
  else if err ≠ none then .ok err w
  else Trans.Reader_Slurp.loop1 fuel size (i64 (remaining - n)) w

theorem loop1_succ (fuel : Nat) (size remaining : Int) (w : World) :
    Trans.Reader_Slurp.loop1 (fuel + 1) size remaining w =
      if remaining > 0 then
        slurpBody fuel size remaining (if remaining > w.reader.MaxMessageSize then w.reader.MaxMessageSize else remaining) w
      else .ok none w := by
  rw [Trans.Reader_Slurp.loop1]
  unfold slurpBody
  by_cases h0 : remaining > 0
  · by_cases h1 : remaining > w.reader.MaxMessageSize
    · simp only [h0, h1, if_true]
      congr 1
    · simp only [h0, h1, if_true, if_false]
      congr 1
  · simp only [h0, if_false]

theorem slurpBody_enough (fuel : Nat) (size remaining : Int) (k : Nat) (w : World) (ok : ReaderOK w)
    (hk : k < 4611686018427387904) (hl : k ≤ w.src.length) :
    slurpBody fuel size remaining (k : Int) w =
      Trans.Reader_Slurp.loop1 fuel size (i64 (remaining - (k : Int)))
        (afterRead (resetSpec k w) (w.src.take k) (w.src.drop k)) := by
  unfold slurpBody
  rw [tie_reset k w ok.wf ok.nilok]
  obtain ⟨_, hlen⟩ := resetSpec_ok k w ok hk
  have hsrc := (resetSpec_frame k w).1
  have e2 := ioReadFullSl_enough (resetSpec k w).reader.Msg (resetSpec k w) (by rw [hlen, hsrc]; exact hl)
  simp only [Out.bind, e2, hlen, hsrc, afterRead, setMsg]
  simp

theorem slurpBody_short (fuel : Nat) (size remaining : Int) (k : Nat) (w : World) (ok : ReaderOK w)
    (hk : k < 4611686018427387904) (hl : ¬ k ≤ w.src.length) :
    slurpBody fuel size remaining (k : Int) w =
      match w.fin with
      | .wait => .block
      | .rerr => .ok (some .readErr)
          (afterRead (resetSpec k w) (w.src ++ (resetSpec k w).reader.Msg.data.drop w.src.length) [])
      | .eof => .ok (some .unexpectedEOF)
          (afterRead (resetSpec k w) (w.src ++ (resetSpec k w).reader.Msg.data.drop w.src.length) []) := by
  unfold slurpBody
  rw [tie_reset k w ok.wf ok.nilok]
  obtain ⟨_, hlen⟩ := resetSpec_ok k w ok hk
  obtain ⟨hsrc, hfin, _⟩ := resetSpec_frame k w
  have e2 := ioReadFullSl_short (resetSpec k w).reader.Msg (resetSpec k w) (by rw [hlen, hsrc]; exact hl)
  rw [hfin, hsrc] at e2
  simp only [Out.bind, e2]
  cases hf : w.fin
  · simp
  · simp [afterRead, setMsg, hfin, hf]
  · by_cases hs : w.src = [] <;> simp [afterRead, setMsg, hs, hfin, hf]

/-! ### the loop -/

/-- what `Slurp`'s loop achieves from `w` with `remaining` bytes to go (`B`: bound on every allocation made) -/
def SlurpPost (B : Nat) (remaining : Int) (w : World) (o : Out (Option Err)) : Prop :=
  if remaining ≤ (w.src.length : Int) then
    ∃ w', o = .ok none w' ∧ w'.src = w.src.drop remaining.toNat ∧ ReaderOK w' ∧ Frame B w w'
  else match w.fin with
    | .wait => o = .block
    | .rerr => ∃ w', o = .ok (some .readErr) w' ∧ w'.src = [] ∧ ReaderOK w' ∧ Frame B w w'
    | .eof => ∃ w', o = .ok (some .unexpectedEOF) w' ∧ w'.src = [] ∧ ReaderOK w' ∧ Frame B w w'

/-- one chunk read, the rest of the loop does the rest -/
theorem SlurpPost_step (B : Nat) (remaining : Int) (k : Nat) (w w2 : World) (o : Out (Option Err))
    (hk : (k : Int) ≤ remaining) (hl : k ≤ w.src.length)
    (hsrc : w2.src = w.src.drop k) (hfr : Frame B w w2)
    (h : SlurpPost B (remaining - (k : Int)) w2 o) : SlurpPost B remaining w o := by
  unfold SlurpPost at *
  have hlen : (w2.src.length : Int) = (w.src.length : Int) - (k : Int) := by
    rw [hsrc, List.length_drop]; omega
  rw [hfr.fin] at h
  by_cases hc : remaining ≤ (w.src.length : Int)
  · have hc2 : remaining - (k : Int) ≤ (w2.src.length : Int) := by omega
    rw [if_pos hc2] at h
    rw [if_pos hc]
    obtain ⟨w', h1, h2, h3, h4⟩ := h
    refine ⟨w', h1, ?_, h3, hfr.trans h4⟩
    rw [h2, hsrc, List.drop_drop]
    congr 1; omega
  · have hc2 : ¬ (remaining - (k : Int) ≤ (w2.src.length : Int)) := by omega
    rw [if_neg hc2] at h
    rw [if_neg hc]
    cases hf : w.fin <;> rw [hf] at h <;> simp only at h ⊢
    · exact h
    · obtain ⟨w', h1, h2, h3, h4⟩ := h
      exact ⟨w', h1, h2, h3, hfr.trans h4⟩
    · obtain ⟨w', h1, h2, h3, h4⟩ := h
      exact ⟨w', h1, h2, h3, hfr.trans h4⟩

/-- the chunk the loop reads when `remaining > 0` -/
def chunk (remaining max : Int) : Nat := (if remaining > max then max else remaining).toNat

/-- the loop of `Slurp`, for `fuel = f + 1` iterations where `remaining ≤ f * Max` -/
theorem slurp_loop (size : Int) : ∀ (f : Nat) (remaining : Int) (w : World), ReaderOK w → 0 < w.reader.MaxMessageSize →
    remaining < 9223372036854775808 → remaining ≤ (f : Int) * w.reader.MaxMessageSize →
    SlurpPost (allocBound w) remaining w (Trans.Reader_Slurp.loop1 (f + 1) size remaining w) := by
  intro f
  induction f with
  | zero =>
    intro remaining w ok hM h63 hf
    have h0 : ¬ (remaining > 0) := by simp at hf; omega
    rw [loop1_succ, if_neg h0]
    unfold SlurpPost
    have : remaining ≤ (w.src.length : Int) := by omega
    rw [if_pos this]
    have ht : remaining.toNat = 0 := by omega
    exact ⟨w, rfl, by simp [ht], ok, Frame.refl _ _⟩
  | succ f ih =>
    intro remaining w ok hM h63 hf
    by_cases h0 : remaining > 0
    · rw [loop1_succ, if_pos h0]
      obtain ⟨hm0, hm1⟩ := ok.max
      have hkdef : (if remaining > w.reader.MaxMessageSize then w.reader.MaxMessageSize else remaining) =
          ((chunk remaining w.reader.MaxMessageSize : Nat) : Int) := by
        unfold chunk; split <;> omega
      have hk1 : 0 < chunk remaining w.reader.MaxMessageSize := by unfold chunk; split <;> omega
      have hk2 : (chunk remaining w.reader.MaxMessageSize : Int) ≤ remaining := by unfold chunk; split <;> omega
      have hk3 : (chunk remaining w.reader.MaxMessageSize : Int) ≤ w.reader.MaxMessageSize := by
        unfold chunk; split <;> omega
      have hk4 : chunk remaining w.reader.MaxMessageSize < 4611686018427387904 := by omega
      have hk5 : (chunk remaining w.reader.MaxMessageSize : Int) = remaining ∨
          (chunk remaining w.reader.MaxMessageSize : Int) = w.reader.MaxMessageSize := by
        unfold chunk; split <;> omega
      rw [hkdef]
      generalize chunk remaining w.reader.MaxMessageSize = k at *
      obtain ⟨ok1, hlen1⟩ := resetSpec_ok k w ok hk4
      have hB : (if k < 4096 then 4096 else k) ≤ allocBound w := by
        unfold allocBound; split <;> omega
      have fr1 : Frame (allocBound w) w (resetSpec k w) := resetSpec_Frame k _ w hB
      by_cases hl : k ≤ w.src.length
      · rw [slurpBody_enough (f + 1) size remaining k w ok hk4 hl]
        have hi : i64 (remaining - (k : Int)) = remaining - (k : Int) := by unfold i64; omega
        rw [hi]
        have ok2 : ReaderOK (afterRead (resetSpec k w) (w.src.take k) (w.src.drop k)) :=
          afterRead_ok _ _ _ ok1 (by rw [hlen1, List.length_take]; omega)
        have fr2 : Frame (allocBound w) w (afterRead (resetSpec k w) (w.src.take k) (w.src.drop k)) :=
          fr1.trans (afterRead_Frame _ _ _ _)
        have hmul : ((f + 1 : Nat) : Int) * w.reader.MaxMessageSize =
            (f : Int) * w.reader.MaxMessageSize + w.reader.MaxMessageSize := by
          rw [Int.natCast_add, Int.add_mul]; simp
        have hnn : 0 ≤ (f : Int) * w.reader.MaxMessageSize := Int.mul_nonneg (by omega) hm0
        have hB2 : allocBound (afterRead (resetSpec k w) (w.src.take k) (w.src.drop k)) = allocBound w := by
          unfold allocBound; rw [fr2.max]
        have := ih (remaining - (k : Int)) _ ok2 (by rw [fr2.max]; exact hM) (by omega)
          (by rw [fr2.max]; rw [hmul] at hf; omega)
        rw [hB2] at this
        exact SlurpPost_step _ _ k w _ _ hk2 hl rfl fr2 this
      · rw [slurpBody_short (f + 1) size remaining k w ok hk4 hl]
        unfold SlurpPost
        have hc : ¬ (remaining ≤ (w.src.length : Int)) := by omega
        rw [if_neg hc]
        have ok2 : ReaderOK (afterRead (resetSpec k w) (w.src ++ (resetSpec k w).reader.Msg.data.drop w.src.length) []) :=
          afterRead_ok _ _ _ ok1 (by rw [List.length_append, List.length_drop]; omega)
        have fr2 : Frame (allocBound w) w
            (afterRead (resetSpec k w) (w.src ++ (resetSpec k w).reader.Msg.data.drop w.src.length) []) :=
          fr1.trans (afterRead_Frame _ _ _ _)
        cases hfin : w.fin <;> simp only
        · exact ⟨_, rfl, rfl, ok2, fr2⟩
        · exact ⟨_, rfl, rfl, ok2, fr2⟩
    · rw [loop1_succ, if_neg h0]
      unfold SlurpPost
      have : remaining ≤ (w.src.length : Int) := by omega
      rw [if_pos this]
      have ht : remaining.toNat = 0 := by omega
      exact ⟨w, rfl, by simp [ht], ok, Frame.refl _ _⟩

/-! ### `Reader.Slurp` -/

/-- fuel that suffices for `Slurp(size)` under limit `max`: one iteration per started chunk of `max` bytes, plus
    the final test of the loop condition -/
def SlurpFuel (fuel : Nat) (size max : Int) : Prop := ∃ f : Nat, fuel = f + 1 ∧ size ≤ (f : Int) * max

theorem SlurpFuel_of_size (fuel : Nat) (size max : Int) (hM : 0 < max) (h : size.toNat + 1 ≤ fuel) :
    SlurpFuel fuel size max := by
  refine ⟨fuel - 1, by omega, ?_⟩
  have h1 : size ≤ ((fuel - 1 : Nat) : Int) := by omega
  have h2 : ((fuel - 1 : Nat) : Int) * 1 ≤ ((fuel - 1 : Nat) : Int) * max :=
    Int.mul_le_mul_of_nonneg_left (by omega) (by omega)
  omega

/-- `size / max + 2` iterations are enough -/
theorem SlurpFuel_of_div (fuel : Nat) (size max : Int) (hM : 0 < max) (h : (size / max).toNat + 2 ≤ fuel) :
    SlurpFuel fuel size max := by
  refine ⟨fuel - 1, by omega, ?_⟩
  have h0 := Int.emod_add_mul_ediv size max
  have h1 := Int.emod_lt_of_pos size hM
  have h3 : (size / max + 1) * max ≤ ((fuel - 1 : Nat) : Int) * max :=
    Int.mul_le_mul_of_nonneg_right (by omega) (by omega)
  rw [Int.add_mul, Int.one_mul, Int.mul_comm] at h3
  omega

/-- `Slurp(size)` in one statement: enough bytes ⇒ they are skipped in chunks, nothing else changes and no
    allocation exceeds `max Max 4096`; too few bytes ⇒ block / `readErr` / `unexpectedEOF` by the stream's end -/
theorem tie_Slurp (fuel : Nat) (size : Int) (w : World) (ok : ReaderOK w) (hM : 0 < w.reader.MaxMessageSize)
    (h63 : size < 9223372036854775808) (hf : SlurpFuel fuel size w.reader.MaxMessageSize) :
    SlurpPost (allocBound w) size w (Trans.Reader_Slurp fuel size w) := by
  obtain ⟨f, rfl, hf⟩ := hf
  exact slurp_loop size f size w ok hM h63 hf

/-- enough bytes on the stream: `Slurp` skips exactly `size` of them -/
theorem tie_Slurp_full (fuel : Nat) (size : Int) (w : World) (ok : ReaderOK w) (hM : 0 < w.reader.MaxMessageSize)
    (h63 : size < 9223372036854775808) (hf : SlurpFuel fuel size w.reader.MaxMessageSize)
    (hl : size ≤ (w.src.length : Int)) :
    ∃ w', Trans.Reader_Slurp fuel size w = .ok none w' ∧ w'.src = w.src.drop size.toNat ∧ ReaderOK w' ∧
      Frame (allocBound w) w w' := by
  have := tie_Slurp fuel size w ok hM h63 hf
  unfold SlurpPost at this
  rw [if_pos hl] at this
  exact this

/-- the stream ends (or stays silent) inside the announced body: never a bare `io.EOF` (fix eb3d69e) -/
theorem tie_Slurp_short (fuel : Nat) (size : Int) (w : World) (ok : ReaderOK w) (hM : 0 < w.reader.MaxMessageSize)
    (h63 : size < 9223372036854775808) (hf : SlurpFuel fuel size w.reader.MaxMessageSize)
    (hl : (w.src.length : Int) < size) :
    match w.fin with
    | .wait => Trans.Reader_Slurp fuel size w = .block
    | .rerr => ∃ w', Trans.Reader_Slurp fuel size w = .ok (some .readErr) w' ∧ w'.src = [] ∧ ReaderOK w' ∧
        Frame (allocBound w) w w'
    | .eof => ∃ w', Trans.Reader_Slurp fuel size w = .ok (some .unexpectedEOF) w' ∧ w'.src = [] ∧ ReaderOK w' ∧
        Frame (allocBound w) w w' := by
  have := tie_Slurp fuel size w ok hM h63 hf
  unfold SlurpPost at this
  have hc : ¬ (size ≤ (w.src.length : Int)) := by omega
  rw [if_neg hc] at this
  exact this

/-- `size ≤ 0` (in particular the negative sizes of a header announcing fewer than 4 bytes): the loop body is not
    entered, for ANY world and limit -/
theorem tie_Slurp_nonpos (fuel : Nat) (size : Int) (w : World) (h : size ≤ 0) :
    Trans.Reader_Slurp (fuel + 1) size w = .ok none w := by
  have h0 : ¬ (size > 0) := by omega
  unfold Trans.Reader_Slurp
  simp only []
  rw [loop1_succ, if_neg h0]

/-- never a panic, never out of fuel -/
theorem tie_Slurp_total (fuel : Nat) (size : Int) (w : World) (ok : ReaderOK w) (hM : 0 < w.reader.MaxMessageSize)
    (h63 : size < 9223372036854775808) (hf : SlurpFuel fuel size w.reader.MaxMessageSize) :
    (∀ m, Trans.Reader_Slurp fuel size w ≠ .panic m) ∧ Trans.Reader_Slurp fuel size w ≠ .fuel := by
  have := tie_Slurp fuel size w ok hM h63 hf
  unfold SlurpPost at this
  split at this
  · obtain ⟨w', h1, _⟩ := this
    rw [h1]; simp
  · cases hfin : w.fin <;> rw [hfin] at this <;> simp only at this
    · rw [this]; simp
    · obtain ⟨w', h1, _⟩ := this
      rw [h1]; simp
    · obtain ⟨w', h1, _⟩ := this
      rw [h1]; simp

/-- the hypothesis `0 < MaxMessageSize` is needed: with limit 0 the loop makes no progress (every chunk is empty)
    and any fuel runs out — in Go, `Slurp` would spin for ever.  (`NewReader` replaces a non-positive limit by the
    default, so the server never builds such a reader.) -/
theorem slurp_zero_limit_spins (size : Int) (h0 : 0 < size) (h63 : size < 9223372036854775808) :
    ∀ (fuel : Nat) (w : World), ReaderOK w → w.reader.MaxMessageSize = 0 →
      Trans.Reader_Slurp.loop1 fuel size size w = .fuel := by
  intro fuel
  induction fuel with
  | zero => intro w _ _; rfl
  | succ f ih =>
    intro w ok hM
    rw [loop1_succ, if_pos (by omega), hM, if_pos (by omega)]
    have e := slurpBody_enough f size size 0 w ok (by omega) (by omega)
    have e' : slurpBody f size size 0 w = _ := e
    rw [e']
    have hi : i64 (size - ((0 : Nat) : Int)) = size := by unfold i64; omega
    rw [hi]
    obtain ⟨ok1, hlen1⟩ := resetSpec_ok 0 w ok (by omega)
    apply ih
    · exact afterRead_ok _ _ _ ok1 (by simp [hlen1])
    · show (resetSpec 0 w).reader.MaxMessageSize = 0
      rw [(resetSpec_frame 0 w).2.2.2.2.2.2.1]; exact hM

/-! ### `ReadTypedMsg` on an oversized message, then `Slurp` -/

/-- what `readBody` says about a `.big` item -/
theorem readBody_big (L : Nat) (t t' : UInt8) (dcl : Nat) (r rest : Bytes) (size : Int) (full : Bool)
    (h : readBody L t' dcl r = some (.big t size full, rest)) :
    sizeVerdict L dcl = .exceeded size ∧ t' = t ∧
      ((size < 0 ∧ full = true ∧ rest = r) ∨
       (0 ≤ size ∧ (r.length : Int) < size ∧ full = false ∧ rest = []) ∨
       (0 ≤ size ∧ size ≤ (r.length : Int) ∧ full = true ∧ rest = r.drop size.toNat)) := by
  unfold readBody at h
  cases hv : sizeVerdict L dcl with
  | ok n =>
    rw [hv] at h
    simp only at h
    by_cases h1 : r.length < n
    · rw [if_pos h1] at h; cases h
    · rw [if_neg h1] at h; cases h
  | exceeded sz =>
    rw [hv] at h
    simp only at h
    by_cases h0 : sz < 0
    · rw [if_pos h0] at h
      injection h with h; injection h with h1 h2; injection h1 with ht hs hf
      subst hs
      exact ⟨rfl, ht, Or.inl ⟨h0, hf.symm, h2.symm⟩⟩
    · rw [if_neg h0] at h
      by_cases h1 : r.length < sz.toNat
      · rw [if_pos h1] at h
        injection h with h; injection h with h1' h2; injection h1' with ht hs hf
        subst hs
        exact ⟨rfl, ht, Or.inr (Or.inl ⟨by omega, by omega, hf.symm, h2.symm⟩)⟩
      · rw [if_neg h1] at h
        injection h with h; injection h with h1' h2; injection h1' with ht hs hf
        subst hs
        exact ⟨rfl, ht, Or.inr (Or.inr ⟨by omega, by omega, hf.symm, h2.symm⟩)⟩

theorem setHeader_ok (w : World) (s hdr : Bytes) (ok : ReaderOK w) (hh : hdr.length = 4) :
    ReaderOK (setHeader { w with src := s } hdr) := ⟨ok.wf, ok.nilok, hh, ok.max⟩

/-- an oversized (or negative-size) message: `ReadTypedMsg` reports the type and `sizeExceeded Max size`, the
    stream is positioned right behind the five header bytes, nothing has been allocated -/
theorem tie_ReadTypedMsg_big (w : World) (ok : ReaderOK w) (t : UInt8) (size : Int) (full : Bool) (rest : Bytes)
    (h : readItem w.reader.MaxMessageSize.toNat w.src = some (.big t size full, rest)) :
    ∃ a b c d r, w.src = t :: a :: b :: c :: d :: r ∧
      size = ((declaredOf a b c d : Nat) : Int) - 4 ∧ (size > w.reader.MaxMessageSize ∨ size < 0) ∧
      size < 4294967296 ∧
      ((size < 0 ∧ full = true ∧ rest = r) ∨
       (0 ≤ size ∧ (r.length : Int) < size ∧ full = false ∧ rest = []) ∨
       (0 ≤ size ∧ size ≤ (r.length : Int) ∧ full = true ∧ rest = r.drop size.toNat)) ∧
      Trans.Reader_ReadTypedMsg w =
        .ok (t, 0, some (.sizeExceeded w.reader.MaxMessageSize size)) (setHeader { w with src := r } [a, b, c, d]) ∧
      ReaderOK (setHeader { w with src := r } [a, b, c, d]) := by
  unfold readItem at h
  rcases hsrc : w.src with _ | ⟨t', _ | ⟨a, _ | ⟨b, _ | ⟨c, _ | ⟨d, r⟩⟩⟩⟩⟩
  · simp [hsrc] at h
  · simp [hsrc, rd32] at h
  · simp [hsrc, rd32] at h
  · simp [hsrc, rd32] at h
  · simp [hsrc, rd32] at h
  simp only [hsrc, rd32_declared] at h
  obtain ⟨hv, ht, hcases⟩ := readBody_big _ _ _ _ _ _ _ _ h
  subst ht
  obtain ⟨hsz, hcond⟩ := exceeded_facts w ok a b c d size hv
  have hdl := declaredOf_lt a b c d
  refine ⟨a, b, c, d, r, rfl, hsz.symm, hcond, by omega, hcases, ?_, setHeader_ok w r _ ok rfl⟩
  unfold Trans.Reader_ReadTypedMsg
  rw [tie_ReadType, hsrc]
  simp only [Out.bind, ne_eq, not_true_eq_false, if_false]
  have ok' : ReaderOK { w with src := a :: b :: c :: d :: r } := ⟨ok.wf, ok.nilok, ok.hdr, ok.max⟩
  have e := tie_ReadUntypedMsg_big { w with src := a :: b :: c :: d :: r } ok' a b c d r size rfl hv
  rw [e]
  simp [setHeader]

/-- `ReadTypedMsg` on an oversized message followed by `Slurp(size)`, against the model's `.big t size full`:
    `full = true` ⇒ the skip succeeds and the stream is at `rest` (nothing consumed for `size < 0`), every allocation
    made is ≤ `max Max 4096`; `full = false` ⇒ block / `readErr` / `unexpectedEOF` and the stream is used up
    (`rest = []`). -/
theorem tie_big_then_Slurp (fuel : Nat) (w : World) (ok : ReaderOK w) (hM : 0 < w.reader.MaxMessageSize)
    (t : UInt8) (size : Int) (full : Bool) (rest : Bytes)
    (h : readItem w.reader.MaxMessageSize.toNat w.src = some (.big t size full, rest))
    (hf : SlurpFuel fuel size w.reader.MaxMessageSize) :
    ∃ w1, Trans.Reader_ReadTypedMsg w = .ok (t, 0, some (.sizeExceeded w.reader.MaxMessageSize size)) w1 ∧
      ReaderOK w1 ∧ (∃ hdr, w1 = setHeader { w with src := w.src.drop 5 } hdr) ∧
      (full = true → ∃ w2, Trans.Reader_Slurp fuel size w1 = .ok none w2 ∧ w2.src = rest ∧ ReaderOK w2 ∧
          Frame (allocBound w) w1 w2) ∧
      (full = false → rest = [] ∧
        match w.fin with
        | .wait => Trans.Reader_Slurp fuel size w1 = .block
        | .rerr => ∃ w2, Trans.Reader_Slurp fuel size w1 = .ok (some .readErr) w2 ∧ w2.src = [] ∧ ReaderOK w2 ∧
            Frame (allocBound w) w1 w2
        | .eof => ∃ w2, Trans.Reader_Slurp fuel size w1 = .ok (some .unexpectedEOF) w2 ∧ w2.src = [] ∧ ReaderOK w2 ∧
            Frame (allocBound w) w1 w2) := by
  obtain ⟨a, b, c, d, r, hsrc, hsz, hcond, h32, hcases, hcall, ok1⟩ := tie_ReadTypedMsg_big w ok t size full rest h
  refine ⟨_, hcall, ok1, ⟨[a, b, c, d], by simp [hsrc]⟩, ?_, ?_⟩
  · intro hfull
    rcases hcases with ⟨h0, _, hr⟩ | ⟨_, _, hff, _⟩ | ⟨h0, hl, _, hr⟩
    · obtain ⟨f, rfl, _⟩ := hf
      refine ⟨_, tie_Slurp_nonpos f size _ (by omega), by rw [hr]; rfl, ok1, Frame.refl _ _⟩
    · rw [hff] at hfull; cases hfull
    · have := tie_Slurp_full fuel size _ ok1 hM (by omega) hf hl
      rw [hr]; exact this
  · intro hfull
    rcases hcases with ⟨_, hff, _⟩ | ⟨h0, hl, _, hr⟩ | ⟨_, _, hff, _⟩
    · rw [hff] at hfull; cases hfull
    · exact ⟨hr, tie_Slurp_short fuel size _ ok1 hM (by omega) hf hl⟩
    · rw [hff] at hfull; cases hfull

/-! ### `ReadTypedMsg` on an incomplete stream -/

theorem tie_ReadUntypedMsg_shorthdr (w : World) (ok : ReaderOK w) (hs : w.src.length < 4) :
    Trans.Reader_ReadUntypedMsg w =
      match w.fin with
      | .wait => .block
      | .rerr => .ok (0, some .readErr) (setHeader { w with src := [] } (w.src ++ w.reader.header.drop w.src.length))
      | .eof => .ok (0, some (if w.src = [] then .eof else .unexpectedEOF))
          (setHeader { w with src := [] } (w.src ++ w.reader.header.drop w.src.length)) := by
  unfold Trans.Reader_ReadUntypedMsg
  rw [tie_ReadMsgSize_short w ok.hdr hs]
  cases hf : w.fin <;> simp [Out.bind]

/-- the world after a read of an `n`-byte body met the end of the stream after `r` -/
def afterShortBody (w : World) (hdr r : Bytes) (n : Nat) : World :=
  let w1 := resetSpec n (setHeader { w with src := r } hdr)
  afterRead w1 (r ++ w1.reader.Msg.data.drop r.length) []

theorem tie_ReadUntypedMsg_shortbody (w : World) (ok : ReaderOK w) (a b c d : UInt8) (r : Bytes) (n : Nat)
    (hs : w.src = a :: b :: c :: d :: r)
    (hv : sizeVerdict w.reader.MaxMessageSize.toNat (declaredOf a b c d) = .ok n) (hr : r.length < n) :
    Trans.Reader_ReadUntypedMsg w =
      match w.fin with
      | .wait => .block
      | .rerr => .ok (i64 (4 + (r.length : Int)), some .readErr) (afterShortBody w [a, b, c, d] r n)
      | .eof => .ok (i64 (4 + (r.length : Int)), some (if r = [] then .eof else .unexpectedEOF))
          (afterShortBody w [a, b, c, d] r n) := by
  have hdl := declaredOf_lt a b c d
  obtain ⟨hm0, hm1⟩ := ok.max
  have hfacts : ((declaredOf a b c d : Nat) : Int) - 4 = (n : Int) ∧ (n : Int) ≤ w.reader.MaxMessageSize := by
    unfold sizeVerdict at hv
    simp only at hv
    split at hv
    · cases hv
    · rename_i hcond
      injection hv with hv
      omega
  obtain ⟨hsz, hle⟩ := hfacts
  have e0 := tie_ReadMsgSize_full w a b c d r ok.hdr hs
  rw [hsz] at e0
  have hcond' : ¬ ((n : Int) > w.reader.MaxMessageSize ∨ (n : Int) < 0) := by omega
  unfold Trans.Reader_ReadUntypedMsg
  rw [e0]
  simp only [Out.bind, ne_eq, not_true_eq_false, if_false]
  have ok1 : ReaderOK (setHeader { w with src := r } [a, b, c, d]) := setHeader_ok w r _ ok rfl
  have hmax : (setHeader { w with src := r } [a, b, c, d]).reader.MaxMessageSize = w.reader.MaxMessageSize := rfl
  rw [hmax, if_neg hcond']
  rw [tie_reset n _ ok1.wf ok1.nilok]
  simp only []
  obtain ⟨_, hlen⟩ := resetSpec_ok n _ ok1 (by omega)
  obtain ⟨hsrc, hfin, _⟩ := resetSpec_frame n (setHeader { w with src := r } [a, b, c, d])
  have hsrc' : (resetSpec n (setHeader { w with src := r } [a, b, c, d])).src = r := hsrc
  have hfin' : (resetSpec n (setHeader { w with src := r } [a, b, c, d])).fin = w.fin := hfin
  have e2 := ioReadFullSl_short _ (resetSpec n (setHeader { w with src := r } [a, b, c, d]))
    (by rw [hlen, hsrc']; omega)
  rw [e2, hfin', hsrc']
  simp only [afterShortBody]
  generalize resetSpec n (setHeader { w with src := r } [a, b, c, d]) = W1 at *
  cases hf : w.fin
  · simp
  · simp [afterRead, setMsg, hfin', hf]
  · by_cases hr0 : r = [] <;> simp [afterRead, setMsg, hr0, hfin', hf]

theorem readBody_none (L : Nat) (t : UInt8) (dcl : Nat) (r : Bytes) (h : readBody L t dcl r = none) :
    ∃ n, sizeVerdict L dcl = .ok n ∧ r.length < n := by
  unfold readBody at h
  cases hv : sizeVerdict L dcl with
  | ok n =>
    rw [hv] at h
    simp only at h
    by_cases h1 : r.length < n
    · exact ⟨n, rfl, h1⟩
    · rw [if_neg h1] at h; cases h
  | exceeded sz =>
    rw [hv] at h
    simp only at h
    by_cases h0 : sz < 0
    · rw [if_pos h0] at h; cases h
    · rw [if_neg h0] at h
      by_cases h1 : r.length < sz.toNat
      · rw [if_pos h1] at h; cases h
      · rw [if_neg h1] at h; cases h

/-- the three ways a stream can end inside a message (or before one) -/
theorem readItem_none (L : Nat) (inp : Bytes) (h : readItem L inp = none) :
    inp = [] ∨ (∃ t r, inp = t :: r ∧ r.length < 4) ∨
    (∃ t a b c d r n, inp = t :: a :: b :: c :: d :: r ∧ sizeVerdict L (declaredOf a b c d) = .ok n ∧ r.length < n) := by
  unfold readItem at h
  rcases inp with _ | ⟨t, _ | ⟨a, _ | ⟨b, _ | ⟨c, _ | ⟨d, r⟩⟩⟩⟩⟩
  · exact Or.inl rfl
  · exact Or.inr (Or.inl ⟨t, _, rfl, by simp⟩)
  · exact Or.inr (Or.inl ⟨t, _, rfl, by simp⟩)
  · exact Or.inr (Or.inl ⟨t, _, rfl, by simp⟩)
  · exact Or.inr (Or.inl ⟨t, _, rfl, by simp⟩)
  · simp only [rd32_declared] at h
    obtain ⟨n, hv, hn⟩ := readBody_none _ _ _ _ h
    exact Or.inr (Or.inr ⟨t, a, b, c, d, r, n, rfl, hv, hn⟩)

/-- what an unsuccessful `ReadTypedMsg` leaves behind: the stream is used up, the reader is in shape, and apart
    from the length header only the window and the allocator (by bounded entries) have changed -/
structure ShortPost (w w' : World) : Prop where
  src : w'.src = []
  ok : ReaderOK w'
  frame : ∃ hdr, Frame (allocBound w) (setHeader w hdr) w'

/-- `ReadTypedMsg` when the stream ends before the message is complete (`readItem = none`: no type byte, fewer than
    four length bytes, or an in-limit body shorter than declared): blocks on a silent stream; otherwise the error is
    `io.EOF` only when NOTHING of a message had arrived, `unexpectedEOF`/`readErr` when the stream broke inside one.
    The reported size is 0 and the type is the type byte if one arrived. -/
theorem tie_ReadTypedMsg_short (w : World) (ok : ReaderOK w)
    (h : readItem w.reader.MaxMessageSize.toNat w.src = none) :
    match w.fin with
    | .wait => Trans.Reader_ReadTypedMsg w = .block
    | .rerr => ∃ w', Trans.Reader_ReadTypedMsg w = .ok (w.src.headD 0, 0, some .readErr) w' ∧ ShortPost w w'
    | .eof => ∃ w', Trans.Reader_ReadTypedMsg w =
          .ok (w.src.headD 0, 0, some (if w.src = [] then .eof else .unexpectedEOF)) w' ∧ ShortPost w w' := by
  rcases readItem_none _ _ h with hs | ⟨t, r, hs, hr⟩ | ⟨t, a, b, c, d, r, n, hs, hv, hr⟩
  · -- nothing at all
    unfold Trans.Reader_ReadTypedMsg
    rw [tie_ReadType, hs]
    have post : ShortPost w w := ⟨hs, ok, ⟨w.reader.header, Frame.refl _ _⟩⟩
    cases hf : w.fin
    · simp [Out.bind]
    · exact ⟨w, by simp [Out.bind], post⟩
    · exact ⟨w, by simp [Out.bind], post⟩
  · -- a type byte and fewer than four bytes of the length
    unfold Trans.Reader_ReadTypedMsg
    rw [tie_ReadType, hs]
    simp only [Out.bind, ne_eq, not_true_eq_false, if_false]
    have ok0 : ReaderOK { w with src := r } := ⟨ok.wf, ok.nilok, ok.hdr, ok.max⟩
    rw [tie_ReadUntypedMsg_shorthdr _ ok0 hr]
    have hh : (r ++ w.reader.header.drop r.length).length = 4 := by
      rw [List.length_append, List.length_drop, ok.hdr]; omega
    have post : ShortPost w (setHeader { w with src := [] } (r ++ w.reader.header.drop r.length)) :=
      ⟨rfl, setHeader_ok w [] _ ok hh, ⟨_, ⟨rfl, rfl, rfl, rfl, rfl, rfl, rfl, ⟨[], rfl, by simp⟩⟩⟩⟩
    cases hf : w.fin
    · simp
    · exact ⟨_, by simp [hf], post⟩
    · refine ⟨_, ?_, post⟩
      by_cases hr0 : r = [] <;> simp [hr0, hf]
  · -- the body is shorter than declared
    unfold Trans.Reader_ReadTypedMsg
    rw [tie_ReadType, hs]
    simp only [Out.bind, ne_eq, not_true_eq_false, if_false]
    have ok0 : ReaderOK { w with src := a :: b :: c :: d :: r } := ⟨ok.wf, ok.nilok, ok.hdr, ok.max⟩
    rw [tie_ReadUntypedMsg_shortbody _ ok0 a b c d r n rfl hv hr]
    have hn : n < 4611686018427387904 ∧ (n : Int) ≤ w.reader.MaxMessageSize := by
      have hdl := declaredOf_lt a b c d
      obtain ⟨hm0, hm1⟩ := ok.max
      unfold sizeVerdict at hv
      simp only at hv
      split at hv
      · cases hv
      · injection hv with hv; omega
    have ok1 : ReaderOK (setHeader { w with src := r } [a, b, c, d]) := setHeader_ok w r _ ok rfl
    obtain ⟨ok2, hlen⟩ := resetSpec_ok n _ ok1 hn.1
    have hB : (if n < 4096 then 4096 else n) ≤ allocBound w := by
      unfold allocBound; split <;> omega
    have post : ShortPost w (afterShortBody { w with src := a :: b :: c :: d :: r } [a, b, c, d] r n) := by
      refine ⟨rfl, ?_, ⟨[a, b, c, d], ?_⟩⟩
      · show ReaderOK (afterRead (resetSpec n (setHeader { w with src := r } [a, b, c, d]))
          (r ++ (resetSpec n (setHeader { w with src := r } [a, b, c, d])).reader.Msg.data.drop r.length) [])
        exact afterRead_ok _ _ _ ok2 (by rw [List.length_append, List.length_drop]; omega)
      · have f1 : Frame (allocBound w) (setHeader w [a, b, c, d]) (setHeader { w with src := r } [a, b, c, d]) :=
          ⟨rfl, rfl, rfl, rfl, rfl, rfl, rfl, ⟨[], rfl, by simp⟩⟩
        exact (f1.trans (resetSpec_Frame n _ _ hB)).trans (afterRead_Frame _ _ _ _)
    cases hf : w.fin
    · simp
    · exact ⟨_, by simp [hf], post⟩
    · refine ⟨_, ?_, post⟩
      by_cases hr0 : r = [] <;> simp [hr0, hf]

/-! ### summary: `ReadTypedMsg` is total on every well-formed reader -/

/-- a result that is neither a panic nor an exhausted loop -/
def Fine {α} (o : Out α) : Prop := (∃ a w, o = .ok a w) ∨ o = .block

theorem Fine.not_panic {α} {o : Out α} (h : Fine o) : (∀ m, o ≠ .panic m) ∧ o ≠ .fuel := by
  rcases h with ⟨a, w, h⟩ | h <;> rw [h] <;> simp

/-- for EVERY well-formed reader and EVERY stream, `ReadTypedMsg` returns normally or blocks (and blocks only on a
    silent stream): no index or slice expression of ReadType/ReadMsgSize/ReadUntypedMsg/reset can go out of bounds,
    no `make` can be asked for a negative or inverted size -/
theorem tie_ReadTypedMsg_fine (w : World) (ok : ReaderOK w) :
    Fine (Trans.Reader_ReadTypedMsg w) ∧ (Trans.Reader_ReadTypedMsg w = .block → w.fin = .wait) := by
  cases hri : readItem w.reader.MaxMessageSize.toNat w.src with
  | none =>
    have := tie_ReadTypedMsg_short w ok hri
    cases hf : w.fin <;> rw [hf] at this <;> simp only at this
    · exact ⟨Or.inr this, fun _ => rfl⟩
    · obtain ⟨w', e, _⟩ := this
      rw [e]; exact ⟨Or.inl ⟨_, _, rfl⟩, fun h => by cases h⟩
    · obtain ⟨w', e, _⟩ := this
      rw [e]; exact ⟨Or.inl ⟨_, _, rfl⟩, fun h => by cases h⟩
  | some p =>
    obtain ⟨it, rest⟩ := p
    cases it with
    | msg t body =>
      obtain ⟨a, b, c, d, r, _, _, _, _, e⟩ := tie_ReadTypedMsg_msg w ok t body rest hri
      rw [e]; exact ⟨Or.inl ⟨_, _, rfl⟩, fun h => by cases h⟩
    | big t size full =>
      obtain ⟨a, b, c, d, r, _, _, _, _, _, e, _⟩ := tie_ReadTypedMsg_big w ok t size full rest hri
      rw [e]; exact ⟨Or.inl ⟨_, _, rfl⟩, fun h => by cases h⟩

theorem tie_ReadTypedMsg_total (w : World) (ok : ReaderOK w) :
    (∀ m, Trans.Reader_ReadTypedMsg w ≠ .panic m) ∧ Trans.Reader_ReadTypedMsg w ≠ .fuel :=
  (tie_ReadTypedMsg_fine w ok).1.not_panic

/-! ### the reader invariant is kept by every return of `ReadTypedMsg` -/

theorem readItem_msg_len (L : Nat) (inp : Bytes) (t : UInt8) (body rest : Bytes)
    (h : readItem L inp = some (.msg t body, rest)) : body.length ≤ L := by
  unfold readItem at h
  rcases inp with _ | ⟨t', _ | ⟨a, _ | ⟨b, _ | ⟨c, _ | ⟨d, r⟩⟩⟩⟩⟩
  · simp at h
  · simp [rd32] at h
  · simp [rd32] at h
  · simp [rd32] at h
  · simp [rd32] at h
  simp only [rd32_declared] at h
  obtain ⟨n, hv, _, hn, hb, _⟩ := readBody_msg _ _ _ _ _ _ _ h
  have : n ≤ L := by
    unfold sizeVerdict at hv
    simp only at hv
    split at hv
    · cases hv
    · injection hv with hv; omega
  rw [hb, List.length_take]; omega

theorem afterMsg_ok (w : World) (ok : ReaderOK w) (hdr r : Bytes) (n : Nat) (hh : hdr.length = 4)
    (hn : n ≤ r.length) (h62 : n < 4611686018427387904) : ReaderOK (afterMsg w hdr r n) := by
  obtain ⟨ok2, hlen⟩ := resetSpec_ok n _ (setHeader_ok w r hdr ok hh) h62
  show ReaderOK (afterRead (resetSpec n (setHeader { w with src := r } hdr)) (r.take n) (r.drop n))
  exact afterRead_ok _ _ _ ok2 (by rw [hlen, List.length_take]; omega)

/-- whatever `ReadTypedMsg` returns, the reader it leaves behind is well-formed again (so the theorems of this
    file apply to the next call, and to the `Slurp` that follows an oversized message) -/
theorem tie_ReadTypedMsg_keeps_ok (w : World) (ok : ReaderOK w) (res : UInt8 × Int × Option Err) (w' : World)
    (h : Trans.Reader_ReadTypedMsg w = .ok res w') : ReaderOK w' := by
  cases hri : readItem w.reader.MaxMessageSize.toNat w.src with
  | none =>
    have := tie_ReadTypedMsg_short w ok hri
    cases hf : w.fin <;> rw [hf] at this <;> simp only at this
    · rw [this] at h; cases h
    · obtain ⟨w2, e, post⟩ := this
      rw [e] at h; injection h with _ hw; rw [← hw]; exact post.ok
    · obtain ⟨w2, e, post⟩ := this
      rw [e] at h; injection h with _ hw; rw [← hw]; exact post.ok
  | some p =>
    obtain ⟨it, rest⟩ := p
    cases it with
    | msg t body =>
      have hlen := readItem_msg_len _ _ _ _ _ hri
      obtain ⟨hm0, hm1⟩ := ok.max
      obtain ⟨a, b, c, d, r, _, _, _, hbr, e⟩ := tie_ReadTypedMsg_msg w ok t body rest hri
      rw [e] at h; injection h with _ hw; rw [← hw]
      exact afterMsg_ok _ ⟨ok.wf, ok.nilok, ok.hdr, ok.max⟩ _ _ _ rfl hbr (by omega)
    | big t size full =>
      obtain ⟨a, b, c, d, r, _, _, _, _, _, e, ok1⟩ := tie_ReadTypedMsg_big w ok t size full rest hri
      rw [e] at h; injection h with _ hw; rw [← hw]; exact ok1

/-! ### non-vacuity: concrete worlds satisfying the hypotheses, and the translated code run on them -/

/-- limit 8; a Query announcing 20 body bytes (all present) and a Sync behind it; then the stream ends -/
def exFull : World :=
  { reader := { MaxMessageSize := 8 }, fin := .eof,
    src := [81, 0, 0, 0, 24] ++ List.replicate 20 65 ++ [83, 0, 0, 0, 4] }
/-- the same announcement with only 5 of the 20 bytes -/
def exCut (f : Fin) : World :=
  { reader := { MaxMessageSize := 8 }, fin := f, src := [81, 0, 0, 0, 24] ++ List.replicate 5 65 }

def outWorld {α} : Out α → Option World
  | .ok _ w => some w
  | _ => none
def outVal {α} : Out α → Option α
  | .ok a _ => some a
  | _ => none
def outIsBlock {α} : Out α → Bool
  | .block => true
  | _ => false

theorem exFull_ok : ReaderOK exFull :=
  ⟨by unfold Sl.WF; decide, by unfold Sl.NilOK; decide, by decide, by decide⟩
theorem exCut_ok (f : Fin) : ReaderOK (exCut f) := by
  cases f <;> exact ⟨by unfold Sl.WF; decide, by unfold Sl.NilOK; decide, by decide, by decide⟩

example : readItem exFull.reader.MaxMessageSize.toNat exFull.src = some (.big 81 20 true, [83, 0, 0, 0, 4]) := by decide
example (f : Fin) : readItem (exCut f).reader.MaxMessageSize.toNat (exCut f).src = some (.big 81 20 false, []) := by
  cases f <;> decide
example : SlurpFuel 4 20 exFull.reader.MaxMessageSize := SlurpFuel_of_div 4 20 8 (by decide) (by decide)
example : SlurpFuel 21 20 exFull.reader.MaxMessageSize := SlurpFuel_of_size 21 20 8 (by decide) (by decide)

/-- the hypotheses of `tie_big_then_Slurp` hold of `exFull`; and running the translated code on it gives what the
    theorem says: Sync is next, three chunks (8, 8, 4) were read into ONE 4096-byte allocation -/
example : ∃ w1, Trans.Reader_ReadTypedMsg exFull = .ok (81, 0, some (.sizeExceeded 8 20)) w1 ∧
    ∃ w2, Trans.Reader_Slurp 4 20 w1 = .ok none w2 ∧ w2.src = [83, 0, 0, 0, 4] := by
  obtain ⟨w1, h1, _, _, h2, _⟩ := tie_big_then_Slurp 4 exFull exFull_ok (by decide) 81 20 true [83, 0, 0, 0, 4]
    (by decide) (SlurpFuel_of_div 4 20 8 (by decide) (by decide))
  obtain ⟨w2, h3, h4, _⟩ := h2 rfl
  exact ⟨w1, h1, w2, h3, h4⟩

example : (outWorld ((Trans.Reader_ReadTypedMsg exFull).bind fun _ w => Trans.Reader_Slurp 4 20 w)).map
    (fun w => (w.src, w.allocs, w.reader.Msg.cap)) = some ([83, 0, 0, 0, 4], [4096], 4096 - 16) := by decide

/-- `full = false`: the three ends of the stream, hypotheses discharged on `exCut`, conclusion as the theorem says -/
example : ∃ w1, Trans.Reader_ReadTypedMsg (exCut .eof) = .ok (81, 0, some (.sizeExceeded 8 20)) w1 ∧
    ∃ w2, Trans.Reader_Slurp 4 20 w1 = .ok (some .unexpectedEOF) w2 ∧ w2.src = [] := by
  obtain ⟨w1, h1, _, _, _, h2⟩ := tie_big_then_Slurp 4 (exCut .eof) (exCut_ok _) (by decide) 81 20 false []
    (by decide) (SlurpFuel_of_div 4 20 8 (by decide) (by decide))
  obtain ⟨w2, h3, h4, _⟩ := (h2 rfl).2
  exact ⟨w1, h1, w2, h3, h4⟩

example : outVal ((Trans.Reader_ReadTypedMsg (exCut .eof)).bind fun _ w => Trans.Reader_Slurp 4 20 w) =
    some (some .unexpectedEOF) := by decide
example : outVal ((Trans.Reader_ReadTypedMsg (exCut .rerr)).bind fun _ w => Trans.Reader_Slurp 4 20 w) =
    some (some .readErr) := by decide
example : outIsBlock ((Trans.Reader_ReadTypedMsg (exCut .wait)).bind fun _ w => Trans.Reader_Slurp 4 20 w) = true := by
  decide
/-- the stream ends exactly at a chunk boundary (8 of 20 bytes): still `unexpectedEOF`, not `EOF` (eb3d69e) -/
example : outVal (Trans.Reader_Slurp 4 20 { reader := { MaxMessageSize := 8 }, fin := .eof, src := List.replicate 8 65 }) =
    some (some .unexpectedEOF) := by decide

/-- `tie_Slurp_full`, `tie_Slurp_short`, `tie_Slurp_total`: hypotheses hold of a reader positioned at a body -/
def exBody (n : Nat) (f : Fin) : World := { reader := { MaxMessageSize := 8 }, fin := f, src := List.replicate n 65 }
theorem exBody_ok (n : Nat) (f : Fin) : ReaderOK (exBody n f) := by
  refine ⟨?_, ?_, by simp [exBody], by simp [exBody]⟩
  · unfold Sl.WF; simp [exBody]
  · unfold Sl.NilOK; simp [exBody]
example : ∃ w', Trans.Reader_Slurp 4 20 (exBody 23 .eof) = .ok none w' ∧ w'.src = [65, 65, 65] := by
  obtain ⟨w', h1, h2, _⟩ := tie_Slurp_full 4 20 (exBody 23 .eof) (exBody_ok _ _) (by decide) (by decide)
    (SlurpFuel_of_div 4 20 8 (by decide) (by decide)) (by decide)
  exact ⟨w', h1, by rw [h2]; decide⟩
example : ∃ w', Trans.Reader_Slurp 4 20 (exBody 19 .eof) = .ok (some .unexpectedEOF) w' ∧ w'.src = [] := by
  obtain ⟨w', h1, h2, _⟩ := tie_Slurp_short 4 20 (exBody 19 .eof) (exBody_ok _ _) (by decide) (by decide)
    (SlurpFuel_of_div 4 20 8 (by decide) (by decide)) (by decide)
  exact ⟨w', h1, h2⟩
example : Trans.Reader_Slurp 4 20 (exBody 19 .wait) = .block :=
  tie_Slurp_short 4 20 (exBody 19 .wait) (exBody_ok _ _) (by decide) (by decide)
    (SlurpFuel_of_div 4 20 8 (by decide) (by decide)) (by decide)

/-- negative size: a header announcing 3 bytes gives `size = -1`; `Slurp(-1)` returns at once, nothing is consumed -/
example : readItem 8 [81, 0, 0, 0, 3, 83, 0, 0, 0, 4] = some (.big 81 (-1) true, [83, 0, 0, 0, 4]) := by decide
example (w : World) : Trans.Reader_Slurp 1 (-1) w = .ok none w := tie_Slurp_nonpos 0 (-1) w (by decide)
example (w : World) : Trans.Reader_Slurp 1 0 w = .ok none w := tie_Slurp_nonpos 0 0 w (by decide)
/-- with no fuel at all the translated loop reports `.fuel` (so the `fuel + 1` above is needed) -/
example (w : World) : Trans.Reader_Slurp 0 0 w = .fuel := rfl
/-- inadequate fuel on a long body: `.fuel` (three iterations do not skip 20 bytes at limit 8: the fourth call,
    which would find `remaining = 0`, is missing) -/
example : (match Trans.Reader_Slurp 3 20 (exBody 23 .eof) with | .fuel => true | _ => false) = true := by decide

/-- `tie_ReadTypedMsg_short`: the three shapes of an incomplete stream -/
def exShort (s : Bytes) (f : Fin) : World := { reader := { MaxMessageSize := 8 }, fin := f, src := s }
theorem exShort_ok (s : Bytes) (f : Fin) : ReaderOK (exShort s f) := by
  refine ⟨?_, ?_, by simp [exShort], by simp [exShort]⟩
  · unfold Sl.WF; simp [exShort]
  · unfold Sl.NilOK; simp [exShort]
example : readItem 8 [] = none ∧ readItem 8 [81, 0, 0] = none ∧ readItem 8 [81, 0, 0, 0, 10, 1, 2] = none := by decide
/-- nothing arrived: a clean `io.EOF` -/
example : ∃ w', Trans.Reader_ReadTypedMsg (exShort [] .eof) = .ok (0, 0, some .eof) w' :=
  (tie_ReadTypedMsg_short (exShort [] .eof) (exShort_ok _ _) (by decide)).imp fun _ h => h.1
/-- the stream ends inside the length / inside the body: `unexpectedEOF` -/
example : ∃ w', Trans.Reader_ReadTypedMsg (exShort [81, 0, 0] .eof) = .ok (81, 0, some .unexpectedEOF) w' :=
  (tie_ReadTypedMsg_short (exShort [81, 0, 0] .eof) (exShort_ok _ _) (by decide)).imp fun _ h => h.1
example : ∃ w', Trans.Reader_ReadTypedMsg (exShort [81] .eof) = .ok (81, 0, some .unexpectedEOF) w' :=
  (tie_ReadTypedMsg_short (exShort [81] .eof) (exShort_ok _ _) (by decide)).imp fun _ h => h.1
example : ∃ w', Trans.Reader_ReadTypedMsg (exShort [81, 0, 0, 0, 10, 1, 2] .eof) = .ok (81, 0, some .unexpectedEOF) w' :=
  (tie_ReadTypedMsg_short (exShort [81, 0, 0, 0, 10, 1, 2] .eof) (exShort_ok _ _) (by decide)).imp fun _ h => h.1
example : ∃ w', Trans.Reader_ReadTypedMsg (exShort [81, 0, 0, 0, 10] .eof) = .ok (81, 0, some .unexpectedEOF) w' :=
  (tie_ReadTypedMsg_short (exShort [81, 0, 0, 0, 10] .eof) (exShort_ok _ _) (by decide)).imp fun _ h => h.1
example : ∃ w', Trans.Reader_ReadTypedMsg (exShort [81, 0, 0, 0, 10, 1, 2] .rerr) = .ok (81, 0, some .readErr) w' :=
  (tie_ReadTypedMsg_short (exShort [81, 0, 0, 0, 10, 1, 2] .rerr) (exShort_ok _ _) (by decide)).imp fun _ h => h.1
example : Trans.Reader_ReadTypedMsg (exShort [81, 0, 0, 0, 10, 1, 2] .wait) = .block :=
  tie_ReadTypedMsg_short (exShort [81, 0, 0, 0, 10, 1, 2] .wait) (exShort_ok _ _) (by decide)

/-- `slurp_zero_limit_spins` is not vacuous: a well-formed reader with limit 0 exists in the model (the server's
    `NewReader` never builds one), and on it any amount of fuel runs out -/
def exZero : World := { reader := { MaxMessageSize := 0 }, fin := .eof, src := [1, 2, 3] }
theorem exZero_ok : ReaderOK exZero :=
  ⟨by unfold Sl.WF; decide, by unfold Sl.NilOK; decide, by decide, by decide⟩
example (fuel : Nat) : Trans.Reader_Slurp fuel 3 exZero = .fuel :=
  slurp_zero_limit_spins 3 (by decide) (by decide) fuel exZero exZero_ok rfl

end Pw.Tie
