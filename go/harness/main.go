package main

import (
	"bufio"
	"flag"
	"fmt"
	"math/rand"
	"os"
	"strconv"
)

type generator func(r *rand.Rand, id string) *Case

var generators = map[string]generator{
	"session": genSession,
}

func main() {
	if len(os.Args) < 2 {
		fmt.Fprintln(os.Stderr, "usage: pwharness gen|run ...")
		os.Exit(2)
	}
	switch os.Args[1] {
	case "gen":
		fs := flag.NewFlagSet("gen", flag.ExitOnError)
		camp := fs.String("camp", "session", "campaign")
		seed := fs.Int64("seed", 1, "seed")
		n := fs.Int("n", 100, "number of cases")
		fs.Parse(os.Args[2:])
		g, ok := generators[*camp]
		if !ok {
			fmt.Fprintln(os.Stderr, "unknown campaign", *camp)
			os.Exit(2)
		}
		w := bufio.NewWriterSize(os.Stdout, 1<<20)
		defer w.Flush()
		for i := 0; i < *n; i++ {
			// every case has its own PRNG derived from (seed, index): it replays from its line alone
			r := rand.New(rand.NewSource(*seed*1000003 + int64(i)))
			c := g(r, *camp+"-"+strconv.FormatInt(*seed, 10)+"-"+strconv.Itoa(i))
			c.Camp = *camp
			fmt.Fprintln(w, c.Line())
		}
	case "run":
		capMemory()
		sc := bufio.NewScanner(os.Stdin)
		sc.Buffer(make([]byte, 1<<20), 1<<30)
		w := bufio.NewWriterSize(os.Stdout, 1<<16)
		for sc.Scan() {
			line := sc.Text()
			if line == "" {
				continue
			}
			c, err := ParseCase(line)
			if err != nil {
				fmt.Fprintln(os.Stderr, "bad case:", err)
				os.Exit(2)
			}
			// announce the case before running it: if the process dies the parent knows which one
			fmt.Fprintf(w, "START %s\n", c.ID)
			w.Flush()
			res := RunCase(c)
			fmt.Fprintf(w, "%s || %s\n", line, res.Line())
			w.Flush()
		}
	default:
		fmt.Fprintln(os.Stderr, "unknown command")
		os.Exit(2)
	}
}
