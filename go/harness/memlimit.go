//go:build !race

package main

import "syscall"

// capMemory bounds the address space of a child that runs cases (3 GiB): a change to the library that
// lets a client make the server allocate by an announced number (C04) then kills the child at once - which the
// parent reports as a crash of the announced case - instead of letting several children eat the machine's
// memory for minutes. Nothing on the unchanged tree comes near the bound (the largest campaign inputs are 32 MiB).
func capMemory() {
	const lim = 3 << 30
	_ = syscall.Setrlimit(syscall.RLIMIT_AS, &syscall.Rlimit{Cur: lim, Max: lim})
}
