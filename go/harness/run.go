package main

import (
	"runtime"

	"context"
	"crypto/tls"
	"errors"
	"fmt"
	"github.com/jackc/pgx/v5/pgtype"
	"io"
	"log/slog"
	"sort"
	"strconv"
	"strings"
	"time"

	wire "github.com/jeroenrinzema/psql-wire"
)

// Case is one line of the line protocol (DESIGN Appendix C).
type Case struct {
	ID    string
	Camp  string
	L     int
	Auth  bool
	TLS   int
	Ver   []byte
	GP    [][2][]byte // nil: nil map
	GPNil bool
	MW    string // per middleware: 'o' succeeds, 'f' fails returning (ctx, err), 'n' fails returning (nil, err)
	Term  int    // 0 none, 1 ok, 2 error
	In    []byte
	TIn   []byte
	Cuts  []int
	RF    bool
	EOF   bool // the client half-closes after its last byte: reads return io.EOF
	WF    int  // -1 none
	CX    bool
	Extra map[string]string
}

func (c *Case) Line() string {
	gp := "-"
	if !c.GPNil {
		parts := []string{}
		for _, kv := range c.GP {
			parts = append(parts, hx(kv[0])+":"+hx(kv[1]))
		}
		gp = "m" + strings.Join(parts, ",")
	}
	cuts := make([]string, len(c.Cuts))
	for i, x := range c.Cuts {
		cuts[i] = strconv.Itoa(x)
	}
	mw := c.MW
	if mw == "" {
		mw = "-"
	}
	wf := "-"
	if c.WF >= 0 {
		wf = strconv.Itoa(c.WF)
	}
	b := func(x bool) string {
		if x {
			return "1"
		}
		return "0"
	}
	rf := b(c.RF)
	if c.EOF {
		rf = "2"
	}
	s := fmt.Sprintf("id=%s camp=%s L=%d auth=%s tls=%d ver=%s gp=%s mw=%s term=%d in=%s tin=%s cuts=%s rf=%s wf=%s cx=%s",
		c.ID, c.Camp, c.L, b(c.Auth), c.TLS, hx(c.Ver), gp, mw, c.Term, hx(c.In), hx(c.TIn), strings.Join(cuts, ","), rf, wf, b(c.CX))
	keys := make([]string, 0, len(c.Extra))
	for k := range c.Extra {
		keys = append(keys, k)
	}
	sort.Strings(keys)
	for _, k := range keys {
		s += " " + k + "=" + c.Extra[k]
	}
	return s
}

func ParseCase(line string) (*Case, error) {
	c := &Case{WF: -1, GPNil: true, Extra: map[string]string{}}
	for _, f := range strings.Fields(line) {
		i := strings.IndexByte(f, '=')
		if i < 0 {
			return nil, fmt.Errorf("bad field %q", f)
		}
		k, v := f[:i], f[i+1:]
		var err error
		switch k {
		case "id":
			c.ID = v
		case "camp":
			c.Camp = v
		case "L":
			c.L, err = strconv.Atoi(v)
		case "auth":
			c.Auth = v == "1"
		case "tls":
			c.TLS, err = strconv.Atoi(v)
		case "ver":
			c.Ver, _ = unhexStrict(v)
		case "gp":
			if v == "-" {
				c.GPNil = true
			} else {
				c.GPNil = false
				c.GP = [][2][]byte{}
				if len(v) > 1 {
					for _, kv := range strings.Split(v[1:], ",") {
						p := strings.Split(kv, ":")
						if len(p) != 2 {
							return nil, fmt.Errorf("bad gp %q", kv)
						}
						a, _ := unhexStrict(p[0])
						b, _ := unhexStrict(p[1])
						c.GP = append(c.GP, [2][]byte{a, b})
					}
				}
			}
		case "mw":
			if v != "-" {
				c.MW = v
			}
		case "term":
			c.Term, err = strconv.Atoi(v)
		case "in":
			c.In, _ = unhexStrict(v)
		case "tin":
			c.TIn, _ = unhexStrict(v)
		case "cuts":
			if v != "" {
				for _, x := range strings.Split(v, ",") {
					n, e := strconv.Atoi(x)
					if e != nil {
						return nil, e
					}
					c.Cuts = append(c.Cuts, n)
				}
			}
		case "rf":
			c.RF = v == "1"
			c.EOF = v == "2"
		case "wf":
			if v != "-" {
				c.WF, err = strconv.Atoi(v)
			}
		case "cx":
			c.CX = v == "1"
		default:
			c.Extra[k] = v
		}
		if err != nil {
			return nil, err
		}
	}
	return c, nil
}

func segments(in []byte, cuts []int) [][]byte {
	var segs [][]byte
	prev := 0
	for _, c := range cuts {
		if c <= prev || c >= len(in) {
			continue
		}
		segs = append(segs, in[prev:c])
		prev = c
	}
	if prev < len(in) {
		segs = append(segs, in[prev:])
	}
	return segs
}

// Result of running one case against the real server.
type Result struct {
	Out               [][]byte
	At                []int
	Ev                []string
	End               string // w | c | hang
	Done              []bool // per captured callback context: cancelled after the run
	Retain            string // ok | corrupt:<what>
	Closes            int
	UserMap           string // rendering of the user's global parameter map after the run
	MultiOut, MultiEv string // multi-connection cases: per-connection renderings joined by "/"
	Alloc             int64  // bytes allocated (runtime TotalAlloc) while the connection was served; -1: not measured
	Fin               string // "1": the server closed the connection after the client hung up; "0": it did not
	By                string // bystander connection: ok | bad:<what> | "" (none)
	Tap               string // TLS cases: verdict on the raw bytes the server put on the wire
	HS                string // TLS cases: ok | fail | - (no handshake attempted)
	Solo              string // multi-connection cases: ok | diff:<i> (connection i differs from its solo run)
}

var discardLogger = slog.New(slog.NewTextHandler(io.Discard, nil))

func validateFn(s0 *session) func(ctx context.Context, database, username, password string) (context.Context, bool, error) {
	return func(ctx context.Context, database, username, password string) (context.Context, bool, error) {
		s := s0.of(ctx)
		s.log.add("V:" + hx([]byte(database)) + ":" + hx([]byte(username)) + ":" + hx([]byte(password)))
		s.retain("password", password)
		s.retain("username", username)
		switch {
		case strings.HasPrefix(password, "ok"):
			if strings.HasPrefix(password, "okhold") && s.holdCh != nil {
				s.holding.Store(true)
				select {
				case <-s.holdCh:
				case <-time.After(3 * time.Second):
				}
				s.holding.Store(false)
			}
			return ctx, true, nil
		case strings.HasPrefix(password, "failok"):
			// e.g. the comparison succeeded but the account store / audit log could not be reached:
			// the outcome of the comparison is reported together with the error
			return ctx, true, errors.New("verif: validator failed")
		case strings.HasPrefix(password, "faileof"):
			// e.g. a user directory that lost its backend connection
			return ctx, false, fmt.Errorf("verif: validator backend: %w", io.EOF)
		case strings.HasPrefix(password, "fail"):
			return ctx, false, errors.New("verif: validator failed")
		}
		return ctx, false, nil
	}
}

func buildServer(c *Case, s *session, tlsCfg *tls.Config) (*wire.Server, wire.Parameters, error) {
	opts := []wire.OptionFn{wire.Logger(discardLogger), wire.MessageBufferSize(c.L),
		// a user-registered type: every connection's type map must know it
		wire.ExtendTypes(func(m *pgtype.Map) {
			m.RegisterType(&pgtype.Type{Name: "ztext", OID: 90001, Codec: zcodec{}})
		})}
	if c.Auth {
		opts = append(opts, wire.SessionAuthStrategy(wire.ClearTextPassword(validateFn(s))))
	}
	if len(c.Ver) > 0 {
		opts = append(opts, wire.Version(string(c.Ver)))
	}
	var userMap wire.Parameters
	if !c.GPNil {
		userMap = wire.Parameters{}
		for _, kv := range c.GP {
			userMap[wire.ParameterStatus(kv[0])] = string(kv[1])
		}
		opts = append(opts, wire.GlobalParameters(userMap))
	}
	switch c.TLS {
	case 1:
		opts = append(opts, wire.TLSConfig(&tls.Config{}))
	case 2:
		opts = append(opts, wire.TLSConfig(tlsCfg))
	}
	s.nmw = len(c.MW)
	for i, m := range c.MW {
		i, m := i, m
		opts = append(opts, wire.SessionMiddleware(func(ctx context.Context) (context.Context, error) {
			s := s.of(ctx)
			s.log.add("M" + strconv.Itoa(i))
			if m == 'f' {
				return ctx, errors.New("verif: middleware failed")
			}
			if m == 'n' { // the idiomatic failure: no context at all
				return nil, errors.New("verif: middleware failed")
			}
			return context.WithValue(ctx, mwKey(i), true), nil
		}))
	}
	if c.Term > 0 {
		term := c.Term
		opts = append(opts, wire.TerminateConn(func(ctx context.Context) error {
			s := s.of(ctx)
			s.log.add("T")
			s.ctxs = append(s.ctxs, ctx)
			if term == 2 {
				return errors.New("verif: terminate hook failed")
			}
			return nil
		}))
	}
	srv, err := wire.NewServer(s.parseFn, opts...)
	return srv, userMap, err
}

func (s *session) checkRetained() string {
	for _, r := range s.retained {
		if r.view != r.copy {
			return "corrupt:" + r.what
		}
	}
	for _, r := range s.retainedB {
		if string(r.view) != string(r.copy) {
			return "corrupt:" + r.what
		}
	}
	for _, r := range s.retainedP {
		for i, p := range r.view {
			if (p.Value() == nil) != (r.vals[i] == nil) || string(p.Value()) != string(r.vals[i]) || p.Format() != r.fmts[i] {
				return "corrupt:parameters"
			}
		}
	}
	return "ok"
}

// bystander opens a second, well-behaved connection on the same server while the case's own
// connection is still open, and reports whether it was served: authentication, one query with
// one row, ReadyForQuery.
func bystander(c *Case, l *Listener) string {
	in := plainStartup("bystander")
	if c.Auth {
		in = append(in, msgPassword("ok")...)
	}
	in = append(in, msgQuery("t//r:t6869;c:"+hxs("SELECT 1")+"/ok")...)
	b := NewConn(segments(in, nil), false, -1)
	b.name = "bystander"
	l.ch <- b
	closed, ok := b.WaitQuiescent(hangTimeout())
	defer b.Hangup()
	if !ok {
		return "bad:hang"
	}
	if closed {
		return "bad:closed"
	}
	b.mu.Lock()
	defer b.mu.Unlock()
	var types []byte
	for _, w := range b.writes {
		if len(w) > 0 {
			types = append(types, w[0])
		}
	}
	t := string(types)
	if !strings.HasSuffix(t, "ZTDCZ") {
		return "bad:" + t
	}
	return "ok"
}

// hangTimeout is how long a connection may stay neither blocked in a read nor closed before the
// case is declared a hang. Cases take milliseconds; the bound is generous. Once two hangs have been
// seen in this process the verdict is settled and later cases get a short bound, so that a change
// which wedges many connections does not make the check run for hours.
var hangsSeen int

func hangTimeout() time.Duration {
	if hangsSeen >= 2 {
		return 1 * time.Second
	}
	return 10 * time.Second
}

// RunCase drives the real server with one case over the in-memory transport.
func RunCase(c *Case) *Result {
	if d, ok := c.Extra["direct"]; ok {
		return runDirect(c, d)
	}
	if _, ok := c.Extra["conns"]; ok {
		return runMulti(c)
	}
	if c.Extra["tlsrun"] == "1" {
		return runTLS(c)
	}
	s := &session{log: &evlog{}, cx: c.CX}
	srv, userMap, err := buildServer(c, s, nil)
	if err != nil {
		return &Result{End: "cfgerr:" + err.Error()}
	}
	before := renderKV(userMap)
	conn := NewConn(segments(c.In, c.Cuts), c.RF, c.WF)
	if v, ok := c.Extra["wf1"]; ok {
		// a transient transport fault: exactly one Write call fails, the connection keeps working
		if k, err := strconv.Atoi(v); err == nil {
			conn.wonce = k
		}
	}
	conn.rtimeout = c.Extra["rto"] == "1"
	conn.clientDone = c.EOF
	if c.Extra["evat"] == "1" {
		s.log.conn = conn
	}
	l := NewListener()
	served := make(chan error, 1)
	go func() { served <- srv.Serve(l) }()
	r := &Result{Alloc: -1}
	var m0 runtime.MemStats
	if c.Extra["alloc"] == "1" {
		runtime.GC()
		runtime.ReadMemStats(&m0)
	}
	l.ch <- conn
	closed, ok := conn.WaitQuiescent(hangTimeout())
	if c.Extra["alloc"] == "1" {
		var m1 runtime.MemStats
		runtime.ReadMemStats(&m1)
		r.Alloc = int64(m1.TotalAlloc - m0.TotalAlloc)
	}
	switch {
	case !ok:
		r.End = "hang"
		hangsSeen++
	case closed:
		r.End = "c"
	default:
		r.End = "w"
	}
	conn.mu.Lock()
	r.Out = append(r.Out, conn.writes...)
	r.At = append(r.At, conn.wat...)
	conn.mu.Unlock()
	r.Ev = s.log.snapshot()
	if c.Extra["by"] == "1" {
		// the case's own connection is still open (blocked in a read, or already closed by the server)
		r.By = bystander(c, l)
	}
	// let the connection goroutine finish, then shut the server down
	conn.Hangup()
	deadline := time.Now().Add(hangTimeout())
	for {
		conn.mu.Lock()
		cl := conn.closed
		conn.mu.Unlock()
		if cl || time.Now().After(deadline) {
			break
		}
		time.Sleep(20 * time.Microsecond)
	}
	conn.mu.Lock()
	r.Fin = "0"
	if conn.closed {
		r.Fin = "1"
	} else {
		hangsSeen++
	}
	conn.mu.Unlock()
	srv.Close()
	<-served
	conn.mu.Lock()
	r.Closes = conn.closes
	conn.mu.Unlock()
	for _, ctx := range s.ctxs {
		r.Done = append(r.Done, ctx.Err() != nil)
	}
	r.Retain = s.checkRetained()
	after := renderKV(userMap)
	if before == after {
		r.UserMap = "same"
	} else {
		r.UserMap = "changed"
	}
	return r
}

func isParamStatus(b []byte) bool { return len(b) >= 5 && b[0] == 'S' }

// canonOut renders the writes: runs of ParameterStatus messages are sorted by
// key (Go map order is not protocol-significant); a run at the very end of the
// output is rendered as S*n (a write fault may have cut it short in map order).
func canonOut(chunks [][]byte) string {
	n := 0
	for n < len(chunks) && isParamStatus(chunks[len(chunks)-1-n]) {
		n++
	}
	head := append([][]byte(nil), chunks[:len(chunks)-n]...)
	i := 0
	for i < len(head) {
		if !isParamStatus(head[i]) {
			i++
			continue
		}
		j := i
		for j < len(head) && isParamStatus(head[j]) {
			j++
		}
		sort.SliceStable(head[i:j], func(a, b int) bool {
			return string(psKey(head[i+a])) < string(psKey(head[i+b]))
		})
		i = j
	}
	parts := make([]string, 0, len(head)+1)
	for _, h := range head {
		parts = append(parts, hx(h))
	}
	if n > 0 {
		parts = append(parts, "S*"+strconv.Itoa(n))
	}
	return strings.Join(parts, ".")
}

func psKey(msg []byte) []byte {
	body := msg[5:]
	for i, b := range body {
		if b == 0 {
			return body[:i]
		}
	}
	return body
}

func (r *Result) Line() string {
	at := make([]string, len(r.At))
	for i, x := range r.At {
		at[i] = strconv.Itoa(x)
	}
	dn := make([]string, len(r.Done))
	for i, x := range r.Done {
		if x {
			dn[i] = "1"
		} else {
			dn[i] = "0"
		}
	}
	if r.MultiOut != "" || r.MultiEv != "" {
		return fmt.Sprintf("out=%s ev=%s end=%s at= dn= retain=%s closes=0 umap=%s solo=%s", r.MultiOut, r.MultiEv, r.End, r.Retain, r.UserMap, r.Solo)
	}
	extra := ""
	if r.Alloc >= 0 {
		extra += fmt.Sprintf(" alloc=%d", r.Alloc)
	}
	if r.Fin != "" {
		extra += " fin=" + r.Fin
	}
	if r.By != "" {
		extra += " by=" + r.By
	}
	if r.Tap != "" {
		extra += " tap=" + r.Tap + " hs=" + r.HS
	}
	return fmt.Sprintf("out=%s ev=%s end=%s at=%s dn=%s retain=%s closes=%d umap=%s%s",
		canonOut(r.Out), strings.Join(r.Ev, ";"), r.End, strings.Join(at, ","), strings.Join(dn, ""), r.Retain, r.Closes, r.UserMap, extra)
}
