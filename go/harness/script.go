package main

import (
	"time"
	"bytes"
	"context"
	"database/sql/driver"
	"encoding/hex"
	"errors"
	"fmt"
	"io"
	"math"
	"sort"
	"strconv"
	"strings"
	"sync"
	"sync/atomic"

	"github.com/jackc/pgx/v5/pgtype"
	wire "github.com/jeroenrinzema/psql-wire"
	"github.com/jeroenrinzema/psql-wire/codes"
	psqlerr "github.com/jeroenrinzema/psql-wire/errors"
	"github.com/lib/pq/oid"
)

// The script language: query texts are programs for the scripted ParseFn and
// statement functions. The Lean driver (Pw/Model/Script.lean) interprets the
// same language on the model side.

type val struct {
	kind byte // n N V x b i t y u f d
	b    bool
	i    int64
	s    []byte
	bits uint64
}

type op struct {
	kind  byte // r c e w g k K B b A s
	guard bool
	vals  []val
	tag   []byte
	n     int
	oid   uint32
	idx   int
}

type colSpec struct {
	name string
	oid  oid.Oid
	deco bool // "~": table id, attribute number, width and a type modifier are set on the column
}

type stmtSpec struct {
	cols   []colSpec
	params []oid.Oid
	ops    []op
	ret    error
	hasRet bool
}

// 'z': a type the harness registers through wire.ExtendTypes (OID 90001, codec zcodec, Go type zval):
// without the registration in the connection's own type map it can be neither encoded nor decoded
var colOids = map[byte]oid.Oid{'b': 16, 's': 21, 'i': 23, 'l': 20, 't': 25, 'v': 1043, 'y': 17, 'u': 2950, 'f': 700, 'd': 701, 'z': 90001,
	// 'm' timestamp, 'e' date: outside the Lean model (cases carry nomodel=1); campaign `times`
	'm': 1114, 'e': 1082}

func unhexStrict(s string) ([]byte, bool) {
	if len(s)%2 != 0 {
		return nil, false
	}
	for i := 0; i < len(s); i++ {
		c := s[i]
		if !((c >= '0' && c <= '9') || (c >= 'a' && c <= 'f')) {
			return nil, false
		}
	}
	b, err := hex.DecodeString(s)
	if err != nil {
		return nil, false
	}
	if b == nil {
		b = []byte{}
	}
	return b, true
}

// decStrict parses a non-empty string of ASCII digits (unbounded in the model;
// here limited to what fits an int64, larger values are rejected by generators).
func decStrict(s string) (int64, bool) {
	if len(s) == 0 {
		return 0, false
	}
	for i := 0; i < len(s); i++ {
		if s[i] < '0' || s[i] > '9' {
			return 0, false
		}
	}
	n, err := strconv.ParseInt(s, 10, 64)
	if err != nil {
		return 0, false
	}
	return n, true
}

func intStrict(s string) (int64, bool) {
	if strings.HasPrefix(s, "-") {
		if n, ok := decStrict(s[1:]); ok {
			return -n, true
		}
		// -2^63: the magnitude alone does not fit
		if len(s) > 1 && strings.Trim(s[1:], "0123456789") == "" {
			n, err := strconv.ParseInt(s, 10, 64)
			return n, err == nil
		}
		return 0, false
	}
	return decStrict(s)
}

func parseVal(s string) (val, bool) {
	switch {
	case s == "n", s == "N", s == "V", s == "x":
		return val{kind: s[0]}, true
	case s == "b0":
		return val{kind: 'b', b: false}, true
	case s == "b1":
		return val{kind: 'b', b: true}, true
	case strings.HasPrefix(s, "i"):
		n, ok := intStrict(s[1:])
		return val{kind: 'i', i: n}, ok
	case strings.HasPrefix(s, "t"), strings.HasPrefix(s, "y"):
		b, ok := unhexStrict(s[1:])
		return val{kind: s[0], s: b}, ok
	case strings.HasPrefix(s, "u"):
		b, ok := unhexStrict(s[1:])
		return val{kind: 'u', s: b}, ok && len(b) == 16
	case strings.HasPrefix(s, "f"):
		b, ok := unhexStrict(s[1:])
		if !ok || len(b) != 4 {
			return val{}, false
		}
		return val{kind: 'f', bits: uint64(uint32(b[0])<<24 | uint32(b[1])<<16 | uint32(b[2])<<8 | uint32(b[3]))}, true
	case strings.HasPrefix(s, "m"):
		// m<unix seconds>_<zone offset in minutes + 10000>: a time.Time in a fixed zone
		parts := strings.Split(s[1:], "_")
		if len(parts) != 2 {
			return val{}, false
		}
		sec, ok1 := intStrict(parts[0])
		off, ok2 := intStrict(parts[1])
		return val{kind: 'm', i: sec, bits: uint64(off)}, ok1 && ok2 && off >= 0 && off <= 20000
	case strings.HasPrefix(s, "d"):
		b, ok := unhexStrict(s[1:])
		if !ok || len(b) != 8 {
			return val{}, false
		}
		var n uint64
		for _, x := range b {
			n = n<<8 | uint64(x)
		}
		return val{kind: 'd', bits: n}, true
	}
	return val{}, false
}

func parseErrSpec(s string) (error, bool) {
	nodes := strings.Split(s, ".")
	last := nodes[len(nodes)-1]
	if !strings.HasPrefix(last, "B") {
		return nil, false
	}
	text, ok := unhexStrict(last[1:])
	if !ok {
		return nil, false
	}
	var err error = errors.New(string(text))
	for i := len(nodes) - 2; i >= 0; i-- {
		n := nodes[i]
		if n == "" {
			return nil, false
		}
		// "x<node>": the decoration is applied to the current error value and the RESULT IS THROWN
		// AWAY (an error value that is decorated again somewhere else, e.g. a shared sentinel):
		// decorators are pure, so this must leave the error that is reported untouched
		keep := err
		discard := false
		if n[0] == 'x' {
			discard = true
			n = n[1:]
			if n == "" {
				return nil, false
			}
		}
		switch n[0] {
		case 'C', 'S', 'H', 'D', 'N':
			b, ok := unhexStrict(n[1:])
			if !ok {
				return nil, false
			}
			switch n[0] {
			case 'C':
				err = psqlerr.WithCode(err, codes.Code(b))
			case 'S':
				err = psqlerr.WithSeverity(err, psqlerr.Severity(b))
			case 'H':
				err = psqlerr.WithHint(err, string(b))
			case 'D':
				err = psqlerr.WithDetail(err, string(b))
			case 'N':
				err = psqlerr.WithConstraintName(err, string(b))
			}
		case 'F':
			parts := strings.Split(n[1:], ":")
			if len(parts) != 3 {
				return nil, false
			}
			f, ok1 := unhexStrict(parts[0])
			l, ok2 := intStrict(parts[1])
			fn, ok3 := unhexStrict(parts[2])
			if !ok1 || !ok2 || !ok3 || l < math.MinInt32 || l > math.MaxInt32 {
				return nil, false
			}
			err = psqlerr.WithSource(err, string(f), int32(l), string(fn))
		case 'W':
			parts := strings.Split(n[1:], ":")
			if len(parts) != 2 {
				return nil, false
			}
			pre, ok1 := unhexStrict(parts[0])
			post, ok2 := unhexStrict(parts[1])
			if !ok1 || !ok2 {
				return nil, false
			}
			err = &wrapErr{pre: string(pre), post: string(post), inner: err}
		default:
			return nil, false
		}
		if discard {
			err = keep
		}
	}
	return err, true
}

// wrapErr behaves like fmt.Errorf(pre+"%w"+post, inner) without interpreting
// '%' characters inside pre/post.
type wrapErr struct {
	pre, post string
	inner     error
}

func (w *wrapErr) Error() string { return w.pre + w.inner.Error() + w.post }
func (w *wrapErr) Unwrap() error { return w.inner }

func parseOp(s string) (op, bool) {
	o := op{}
	if strings.HasSuffix(s, "?") {
		o.guard = true
		s = s[:len(s)-1]
	}
	switch {
	case strings.HasPrefix(s, "r:"):
		o.kind = 'r'
		rest := s[2:]
		if rest != "" {
			for _, p := range strings.Split(rest, ",") {
				v, ok := parseVal(p)
				if !ok {
					return o, false
				}
				o.vals = append(o.vals, v)
			}
		}
		return o, true
	case strings.HasPrefix(s, "c:"):
		o.kind = 'c'
		b, ok := unhexStrict(s[2:])
		o.tag = b
		return o, ok
	case s == "e", s == "w", s == "k", s == "B", s == "b":
		o.kind = s[0]
		return o, true
	case strings.HasPrefix(s, "g:"):
		o.kind = 'g'
		n, ok := decStrict(s[2:])
		o.n = int(n)
		return o, ok && n <= 1<<20
	case strings.HasPrefix(s, "K"), strings.HasPrefix(s, "A"):
		o.kind = s[0]
		n, ok := decStrict(s[1:])
		o.n = int(n)
		return o, ok && n <= 1<<16
	case strings.HasPrefix(s, "s:"):
		o.kind = 's'
		parts := strings.Split(s[2:], ",")
		if len(parts) != 2 {
			return o, false
		}
		a, ok1 := decStrict(parts[0])
		b, ok2 := decStrict(parts[1])
		o.oid, o.idx = uint32(a), int(b)
		return o, ok1 && ok2 && a <= math.MaxUint32 && b <= 1<<20
	}
	return o, false
}

func parseStmt(query, s string) (*stmtSpec, bool) {
	parts := strings.Split(s, "/")
	if len(parts) < 4 {
		return nil, false
	}
	st := &stmtSpec{}
	if parts[0] != "" {
		for i, c := range strings.Split(parts[0], ",") {
			deco := strings.HasSuffix(c, "~")
			c = strings.TrimSuffix(c, "~")
			if len(c) == 1 {
				o, ok := colOids[c[0]]
				if !ok {
					return nil, false
				}
				st.cols = append(st.cols, colSpec{name: "c" + strconv.Itoa(i), oid: o})
			} else if len(c) >= 2 && c[1] == '=' {
				o, ok := colOids[c[0]]
				n, ok2 := unhexStrict(c[2:])
				if !ok || !ok2 {
					return nil, false
				}
				st.cols = append(st.cols, colSpec{name: string(n), oid: o})
			} else {
				return nil, false
			}
			st.cols[len(st.cols)-1].deco = deco
		}
	}
	if parts[1] == "P" {
		st.params = wire.ParseParameters(query)
	} else if parts[1] != "" {
		for _, p := range strings.Split(parts[1], ",") {
			n, ok := decStrict(p)
			if !ok || n > math.MaxUint32 {
				return nil, false
			}
			st.params = append(st.params, oid.Oid(n))
		}
	}
	if parts[2] != "" {
		for _, p := range strings.Split(parts[2], ";") {
			o, ok := parseOp(p)
			if !ok {
				return nil, false
			}
			st.ops = append(st.ops, o)
		}
	}
	if parts[3] != "ok" {
		if !strings.HasPrefix(parts[3], "E") {
			return nil, false
		}
		e, ok := parseErrSpec(parts[3][1:])
		if !ok {
			return nil, false
		}
		st.ret, st.hasRet = e, true
	}
	return st, true
}

var errBadScript = psqlerr.WithCode(errors.New("verif: bad script"), codes.Syntax)

// ---- interpretation against the real library ----

type session struct {
	log       *evlog
	cx        bool
	nmw       int
	ctxs      []context.Context
	retained  []retainedStr
	retainedB []retainedBytes
	retainedP []retainedParams
	// route, when set, selects the per-connection session a callback belongs to
	route func(addr string) *session
	// decls: the application builds the declaration (parameter types) of a statement text once and hands the
	// same slice to every Parse of that text, on whichever connection: the library only reads it
	decls sync.Map
	// holdCh, when set (multi-connection cases with Extra["hold"]): a validator asked about a password that
	// starts with "okhold" does not answer before the channel is closed (a slow account store); while it
	// waits `holding` is set, which the scheduler of the case treats as quiescence of that connection
	holdCh  chan struct{}
	holding atomic.Bool
}

// of returns the session the callback with this context belongs to.
func (s *session) of(ctx context.Context) *session {
	if s.route == nil {
		return s
	}
	a := wire.RemoteAddress(ctx)
	if a == nil {
		return s
	}
	return s.route(a.String())
}

type retainedStr struct {
	view string // the zero-copy view handed out by the library
	copy string // private copy taken on receipt
	what string
}

func (s *session) retain(what, v string) {
	s.retained = append(s.retained, retainedStr{view: v, copy: strings.Clone(v), what: what})
}

func (s *session) retainBytes(what string, v []byte) {
	if v == nil {
		return
	}
	// keep the slice itself (as a string view sharing memory is not possible
	// without unsafe; compare via the original slice header)
	s.retainedB = append(s.retainedB, retainedBytes{view: v, copy: append([]byte(nil), v...), what: what})
}

// retainedParams: the parameter slice handed to a statement function, kept as handed over
type retainedParams struct {
	view []wire.Parameter
	vals [][]byte
	fmts []wire.FormatCode
}

func (s *session) retainParams(ps []wire.Parameter) {
	if len(ps) == 0 {
		return
	}
	rp := retainedParams{view: ps}
	for _, p := range ps {
		var v []byte
		if p.Value() != nil {
			v = append([]byte{}, p.Value()...)
		}
		rp.vals = append(rp.vals, v)
		rp.fmts = append(rp.fmts, p.Format())
	}
	s.retainedP = append(s.retainedP, rp)
}

type retainedBytes struct {
	view []byte
	copy []byte
	what string
}

type evlog struct {
	mu   sync.Mutex
	ev   []string
	conn *Conn // when set, every event is suffixed with "#<bytes delivered so far>"
}

func (l *evlog) add(s string) {
	if l.conn != nil {
		l.conn.mu.Lock()
		d := l.conn.delivered
		l.conn.mu.Unlock()
		s += "#" + strconv.Itoa(d)
	}
	l.mu.Lock()
	l.ev = append(l.ev, s)
	l.mu.Unlock()
}

func (l *evlog) snapshot() []string {
	l.mu.Lock()
	defer l.mu.Unlock()
	return append([]string(nil), l.ev...)
}

func hx(b []byte) string { return hex.EncodeToString(b) }

func renderKV(m wire.Parameters) string {
	keys := make([]string, 0, len(m))
	for k := range m {
		keys = append(keys, string(k))
	}
	sort.Strings(keys)
	parts := make([]string, 0, len(keys))
	for _, k := range keys {
		parts = append(parts, hx([]byte(k))+"="+hx([]byte(m[wire.ParameterStatus(k)])))
	}
	return strings.Join(parts, ",")
}

type mwKey int

func (s *session) ctxSig(ctx context.Context) string {
	if !s.cx {
		return ""
	}
	var marks []string
	for i := 0; i < s.nmw+2; i++ {
		if ctx.Value(mwKey(i)) != nil {
			marks = append(marks, strconv.Itoa(i))
		}
	}
	b2 := func(b bool) string {
		if b {
			return "1"
		}
		return "0"
	}
	return "@c[" + renderKV(wire.ClientParameters(ctx)) + "]s[" + renderKV(wire.ServerParameters(ctx)) + "]m" +
		strings.Join(marks, ".") + "r" + b2(wire.RemoteAddress(ctx) != nil) + "t" + b2(wire.TypeMap(ctx) != nil) + "a" + b2(ctx.Err() == nil)
}

func classify(err error) string {
	var ee interface{ SafeToRetry() bool }
	_ = ee
	msg := err.Error()
	switch {
	case strings.HasPrefix(msg, "unable to encode"), strings.Contains(msg, "cannot find encode plan"):
		return "enc"
	}
	return "L" + hx([]byte(msg))
}

// opErrClass renders the error of a library call. Errors raised inside pgx are
// mapped to the class tokens enc / dec (their texts are not modelled).
func opErrClass(err error, pgxClass string) string {
	if isLibErr(err) {
		return "L" + hx([]byte(err.Error()))
	}
	return pgxClass
}

// isLibErr reports whether the error text is one psql-wire (or the harness
// transport) produces itself, as opposed to an error raised inside pgx.
func isLibErr(err error) bool {
	msg := err.Error()
	for _, p := range libPrefixes {
		if strings.HasPrefix(msg, p) {
			return true
		}
	}
	return false
}

var libPrefixes = []string{
	"closed writer", "data has already been written", "unexpected columns, ", "at least one column needs",
	"verif: ", "client aborted copy: ", "unimplemented client message type: ", "message size ",
	"NUL terminator not found", "length: ", "unexpected EOF", "EOF", "unexpected number of fields, ",
	"unexpected copy data after", "unexpected header extension", "postgres connection info", "unknown column type",
	"context canceled",
}

// lengthErr: "length %d exceeds the maximum message size %d"
func init() { libPrefixes = append(libPrefixes, "length ") }

func retOf(err error, pgxClass string) error {
	if isLibErrDeep(err) {
		return err
	}
	return errors.New("pgx:" + pgxClass)
}

// isLibErrDeep: the binary copy reader wraps errors ("unexpected value: %w").
func isLibErrDeep(err error) bool {
	msg := err.Error()
	for _, p := range []string{"unexpected header: ", "unexpected field length: ", "unexpected value: "} {
		for strings.HasPrefix(msg, p) {
			msg = msg[len(p):]
		}
	}
	for _, p := range libPrefixes {
		if strings.HasPrefix(msg, p) {
			return true
		}
	}
	return false
}

func classDeep(err error, pgxClass string) string {
	if isLibErrDeep(err) {
		return "L" + hx([]byte(err.Error()))
	}
	return pgxClass
}

type unencodable struct{}

func goValue(v val, o oid.Oid) any {
	fits := func(kinds ...oid.Oid) bool {
		for _, k := range kinds {
			if k == o {
				return true
			}
		}
		return false
	}
	switch v.kind {
	case 'n':
		return nil
	case 'x':
		return unencodable{}
	case 'N':
		switch o {
		case 16:
			return (*bool)(nil)
		case 21, 23, 20:
			return (*int64)(nil)
		case 25, 1043:
			return (*string)(nil)
		case 90001:
			return (*zval)(nil)
		case 17:
			return (*[]byte)(nil)
		case 2950:
			return (*[16]byte)(nil)
		case 700:
			return (*float32)(nil)
		case 701:
			return (*float64)(nil)
		}
		return (*string)(nil)
	case 'V':
		switch o {
		case 16:
			return pgtype.Bool{}
		case 21:
			return pgtype.Int2{}
		case 23:
			return pgtype.Int4{}
		case 20:
			return pgtype.Int8{}
		case 25, 1043:
			return pgtype.Text{}
		case 90001:
			return (*zval)(nil)
		case 17:
			return []byte(nil)
		case 2950:
			return pgtype.UUID{}
		case 700:
			return pgtype.Float4{}
		case 701:
			return pgtype.Float8{}
		}
		return pgtype.Text{}
	case 'b':
		if fits(16) {
			return v.b
		}
	case 'i':
		if fits(21, 23, 20) {
			return v.i
		}
	case 't':
		if fits(90001) {
			return zval{b: append([]byte{}, v.s...)}
		}
		if fits(25, 1043) {
			return string(v.s)
		}
	case 'y':
		if fits(17) {
			b := v.s
			if b == nil {
				b = []byte{}
			}
			return b
		}
	case 'u':
		if fits(2950) {
			var a [16]byte
			copy(a[:], v.s)
			return a
		}
	case 'm':
		if fits(1114, 1082) {
			return time.Unix(v.i, 0).In(time.FixedZone("verif", (int(v.bits)-10000)*60))
		}
	case 'f':
		if fits(700) {
			return math.Float32frombits(uint32(v.bits))
		}
	case 'd':
		if fits(701) {
			return math.Float64frombits(v.bits)
		}
	}
	return unencodable{}
}

func renderAny(v any) string {
	switch x := v.(type) {
	case nil:
		return "n"
	case bool:
		if x {
			return "b1"
		}
		return "b0"
	case int16:
		return "i" + strconv.FormatInt(int64(x), 10)
	case int32:
		return "i" + strconv.FormatInt(int64(x), 10)
	case int64:
		return "i" + strconv.FormatInt(x, 10)
	case string:
		return "t" + hx([]byte(x))
	case zval:
		return "t" + hx(x.b)
	case []byte:
		return "y" + hx(x)
	case [16]byte:
		return "u" + hx(x[:])
	case float32:
		b := math.Float32bits(x)
		return "f" + hx([]byte{byte(b >> 24), byte(b >> 16), byte(b >> 8), byte(b)})
	case float64:
		b := math.Float64bits(x)
		var bb [8]byte
		for i := 0; i < 8; i++ {
			bb[i] = byte(b >> (56 - 8*i))
		}
		return "d" + hx(bb[:])
	}
	return fmt.Sprintf("?%T", v)
}

func res(tag string, err error, pgxClass string) string {
	if err == nil {
		return tag + "+"
	}
	return tag + "-" + opErrClass(err, pgxClass)
}

func (s *session) runStmt(ctx context.Context, st *stmtSpec, w wire.DataWriter, params []wire.Parameter) error {
	var copyr *wire.CopyReader
	var binr *wire.BinaryCopyReader
	noReader := errors.New("verif: no copy reader")
	for _, o := range st.ops {
		switch o.kind {
		case 'r':
			vals := make([]any, len(o.vals))
			for i, v := range o.vals {
				if i < len(st.cols) {
					vals[i] = goValue(v, st.cols[i].oid)
				} else {
					vals[i] = goValue(v, 25)
				}
			}
			err := w.Row(vals)
			s.log.add(res("r", err, "enc"))
			if err != nil && o.guard {
				return retOf(err, "enc")
			}
		case 'c':
			err := w.Complete(string(o.tag))
			s.log.add(res("c", err, "enc"))
			if err != nil && o.guard {
				return retOf(err, "enc")
			}
		case 'e':
			err := w.Empty()
			s.log.add(res("e", err, "enc"))
			if err != nil && o.guard {
				return retOf(err, "enc")
			}
		case 'w':
			s.log.add("w" + strconv.FormatUint(w.Written(), 10))
		case 'g':
			r, err := w.CopyIn(wire.FormatCode(int16(o.n)))
			s.log.add(res("g", err, "enc"))
			if err == nil {
				copyr = r
			} else if o.guard {
				return retOf(err, "enc")
			}
		case 'k', 'K':
			n := 1
			if o.kind == 'K' {
				n = o.n
			}
			for i := 0; i < n; i++ {
				var err error
				if copyr == nil {
					err = noReader
				} else {
					err = copyr.Read()
				}
				if err == nil {
					s.log.add("k+" + hx(copyr.Msg))
					s.retainBytes("copydata", copyr.Msg)
					continue
				}
				if err == io.EOF {
					s.log.add("k.")
					break
				}
				s.log.add("k-" + opErrClass(err, "dec"))
				if o.guard {
					return retOf(err, "dec")
				}
				break
			}
		case 'B':
			var err error
			if copyr == nil {
				err = noReader
			} else {
				binr, err = wire.NewBinaryColumnReader(ctx, copyr)
			}
			s.log.add(res("B", err, "dec"))
			if err != nil && o.guard {
				return retOf(err, "dec")
			}
		case 'b', 'A':
			n := 1
			if o.kind == 'A' {
				n = o.n
			}
			for i := 0; i < n; i++ {
				var row []any
				var err error
				if binr == nil {
					err = noReader
				} else {
					row, err = binr.Read(ctx)
				}
				if err == nil {
					parts := make([]string, len(row))
					for j, v := range row {
						parts[j] = renderAny(v)
					}
					s.log.add("b+" + strings.Join(parts, ","))
					continue
				}
				if err == io.EOF {
					s.log.add("b.")
					break
				}
				s.log.add("b-" + classDeep(err, "dec"))
				if o.guard {
					return retOf(err, "dec")
				}
				break
			}
		case 's':
			txt := "s=range"
			if o.idx < len(params) {
				v, err := params[o.idx].Scan(o.oid)
				if err != nil {
					txt = "s=err"
				} else {
					txt = "s=" + renderAny(v)
				}
			}
			s.log.add("N" + hx([]byte(txt)))
		}
	}
	if st.hasRet {
		return st.ret
	}
	return nil
}

func (s0 *session) parseFn(ctx context.Context, query string) (wire.PreparedStatements, error) {
	s := s0.of(ctx)
	s.log.add("P:" + hx([]byte(query)) + s.ctxSig(ctx))
	s.ctxs = append(s.ctxs, ctx)
	s.retain("query", query)
	if strings.HasPrefix(query, "!") {
		e, ok := parseErrSpec(query[1:])
		if !ok {
			return nil, errBadScript
		}
		return nil, e
	}
	if query == "#" {
		return wire.Prepared(), nil
	}
	var out wire.PreparedStatements
	for idx, part := range strings.Split(query, "|") {
		st, ok := parseStmt(query, part)
		if !ok {
			return nil, errBadScript
		}
		idx := idx
		cols := make(wire.Columns, len(st.cols))
		for i, c := range st.cols {
			cols[i] = wire.Column{Name: c.name, Oid: c.oid}
			if c.deco {
				cols[i].Table, cols[i].AttrNo, cols[i].Width, cols[i].TypeModifier = int32(7+i), int16(i+1), 8, 42
			}
		}
		fn := func(ctx context.Context, w wire.DataWriter, params []wire.Parameter) error {
			s := s0.of(ctx)
			ps := make([]string, len(params))
			for i, p := range params {
				if p.Value() == nil {
					ps[i] = strconv.Itoa(int(uint16(p.Format()))) + ".~"
				} else {
					ps[i] = strconv.Itoa(int(uint16(p.Format()))) + "." + hx(p.Value())
					s.retainBytes("param", p.Value())
				}
			}
			s.retainParams(params)
			s.log.add("X:" + hx([]byte(query)) + ":" + strconv.Itoa(idx) + ":" + strings.Join(ps, ",") + s.ctxSig(ctx))
			s.ctxs = append(s.ctxs, ctx)
			return s.runStmt(ctx, st, w, params)
		}
		shared, _ := s0.decls.LoadOrStore(query+"#"+strconv.Itoa(idx), st.params)
		opts := []wire.PreparedOptionFn{wire.WithParameters(shared.([]oid.Oid))}
		if len(cols) > 0 {
			opts = append(opts, wire.WithColumns(cols))
		}
		out = append(out, wire.NewStatement(fn, opts...))
	}
	return out, nil
}

var _ = bytes.Equal

// zval / zcodec: the user-defined type behind column letter 'z'. The wire form is the value's bytes
// in both formats (like text).
type zval struct{ b []byte }

type zcodec struct{}

func (zcodec) FormatSupported(f int16) bool { return f == 0 || f == 1 }
func (zcodec) PreferredFormat() int16       { return 0 }
func (zcodec) PlanEncode(m *pgtype.Map, oid uint32, format int16, value any) pgtype.EncodePlan {
	if _, ok := value.(zval); ok {
		return zplan{}
	}
	return nil
}
func (zcodec) PlanScan(m *pgtype.Map, oid uint32, format int16, target any) pgtype.ScanPlan {
	return nil
}
func (zcodec) DecodeDatabaseSQLValue(m *pgtype.Map, oid uint32, format int16, src []byte) (driver.Value, error) {
	if src == nil {
		return nil, nil
	}
	return string(src), nil
}
func (zcodec) DecodeValue(m *pgtype.Map, oid uint32, format int16, src []byte) (any, error) {
	if src == nil {
		return nil, nil
	}
	return zval{b: append([]byte{}, src...)}, nil
}

type zplan struct{}

func (zplan) Encode(value any, buf []byte) ([]byte, error) {
	return append(buf, value.(zval).b...), nil
}
