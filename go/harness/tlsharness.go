package main

import (
	"bytes"
	"crypto/ecdsa"
	"crypto/elliptic"
	crand "crypto/rand"
	"crypto/tls"
	"crypto/x509"
	"crypto/x509/pkix"
	"encoding/hex"
	"errors"
	"io"
	"math/big"
	"net"
	"sync"
	"time"
)

// ---- C11: a real TLS upgrade over an in-memory duplex connection with a wire tap --------------

type duplex struct {
	mu   sync.Mutex
	cond *sync.Cond

	toServer, toClient     []byte
	srvWaiting, cliWaiting bool
	srvClosed, cliClosed   bool
	cliDone                bool     // the client goroutine has finished
	tap                    [][]byte // every raw Write of the server
	rawSeen                []byte   // every raw byte the server read
	dlArmed                bool     // the server left a deadline set on the connection
}

func newDuplex() *duplex {
	d := &duplex{}
	d.cond = sync.NewCond(&d.mu)
	return d
}

type srvEnd struct{ d *duplex }
type cliEnd struct{ d *duplex }

func (s srvEnd) Read(p []byte) (int, error) {
	d := s.d
	d.mu.Lock()
	defer d.mu.Unlock()
	for {
		if d.srvClosed {
			return 0, net.ErrClosed
		}
		if len(p) == 0 {
			return 0, nil
		}
		if len(d.toServer) > 0 {
			n := copy(p, d.toServer)
			d.rawSeen = append(d.rawSeen, d.toServer[:n]...)
			d.toServer = d.toServer[n:]
			return n, nil
		}
		if d.cliClosed {
			return 0, io.EOF
		}
		d.srvWaiting = true
		d.cond.Broadcast()
		d.cond.Wait()
		d.srvWaiting = false
	}
}

func (s srvEnd) Write(p []byte) (int, error) {
	d := s.d
	d.mu.Lock()
	defer d.mu.Unlock()
	if d.srvClosed {
		return 0, net.ErrClosed
	}
	d.tap = append(d.tap, append([]byte(nil), p...))
	d.toClient = append(d.toClient, p...)
	d.cond.Broadcast()
	return len(p), nil
}

func (s srvEnd) Close() error {
	d := s.d
	d.mu.Lock()
	d.srvClosed = true
	d.cond.Broadcast()
	d.mu.Unlock()
	return nil
}

func (s srvEnd) LocalAddr() net.Addr                { return addr("server") }
func (s srvEnd) RemoteAddr() net.Addr               { return addr("client") }
func (s srvEnd) SetDeadline(t time.Time) error      { s.d.arm(t); return nil }
func (s srvEnd) SetReadDeadline(t time.Time) error  { s.d.arm(t); return nil }
func (s srvEnd) SetWriteDeadline(t time.Time) error { s.d.arm(t); return nil }

// arm records whether a deadline is currently set: a deadline that is set around the handshake and
// never cleared kills the session when it expires
func (d *duplex) arm(t time.Time) {
	d.mu.Lock()
	d.dlArmed = !t.IsZero()
	d.mu.Unlock()
}

func (c cliEnd) Read(p []byte) (int, error) {
	d := c.d
	d.mu.Lock()
	defer d.mu.Unlock()
	for {
		if len(d.toClient) > 0 {
			n := copy(p, d.toClient)
			d.toClient = d.toClient[n:]
			return n, nil
		}
		if d.srvClosed || d.cliClosed {
			return 0, io.EOF
		}
		d.cliWaiting = true
		d.cond.Broadcast()
		d.cond.Wait()
		d.cliWaiting = false
	}
}

func (c cliEnd) Write(p []byte) (int, error) {
	d := c.d
	d.mu.Lock()
	defer d.mu.Unlock()
	if d.srvClosed || d.cliClosed {
		return 0, errors.New("verif: broken pipe")
	}
	d.toServer = append(d.toServer, p...)
	d.cond.Broadcast()
	return len(p), nil
}

func (c cliEnd) Close() error {
	d := c.d
	d.mu.Lock()
	d.cliClosed = true
	d.cond.Broadcast()
	d.mu.Unlock()
	return nil
}

func (c cliEnd) LocalAddr() net.Addr                { return addr("client") }
func (c cliEnd) RemoteAddr() net.Addr               { return addr("server") }
func (c cliEnd) SetDeadline(t time.Time) error      { return nil }
func (c cliEnd) SetReadDeadline(t time.Time) error  { return nil }
func (c cliEnd) SetWriteDeadline(t time.Time) error { return nil }

// waitFor polls a condition on the duplex state.
func (d *duplex) waitFor(timeout time.Duration, cond func() bool) bool {
	deadline := time.Now().Add(timeout)
	for {
		d.mu.Lock()
		ok := cond()
		d.mu.Unlock()
		if ok {
			return true
		}
		if time.Now().After(deadline) {
			return false
		}
		time.Sleep(50 * time.Microsecond)
	}
}

var (
	certOnce sync.Once
	testCert tls.Certificate
)

func serverCert() tls.Certificate {
	certOnce.Do(func() {
		key, err := ecdsa.GenerateKey(elliptic.P256(), crand.Reader)
		if err != nil {
			panic(err)
		}
		tmpl := &x509.Certificate{
			SerialNumber: big.NewInt(1), Subject: pkix.Name{CommonName: "verif"},
			NotBefore: time.Now().Add(-time.Hour), NotAfter: time.Now().Add(24 * time.Hour),
			KeyUsage: x509.KeyUsageDigitalSignature, ExtKeyUsage: []x509.ExtKeyUsage{x509.ExtKeyUsageServerAuth},
			DNSNames: []string{"verif"},
		}
		der, err := x509.CreateCertificate(crand.Reader, tmpl, tmpl, &key.PublicKey, key)
		if err != nil {
			panic(err)
		}
		testCert = tls.Certificate{Certificate: [][]byte{der}, PrivateKey: key}
	})
	return testCert
}

// tapVerdict: after the single byte 'S' everything the server put on the wire must be TLS
// records, and no protocol plaintext may be visible.
func tapVerdict(raw []byte) string {
	if len(raw) == 0 {
		return "ok"
	}
	if raw[0] != 'S' {
		return "bad:first-byte-" + hex.EncodeToString(raw[:1])
	}
	rest := raw[1:]
	for _, needle := range []string{"server_encoding", "client_encoding", "is_superuser", "SFATAL", "SERROR"} {
		if bytes.Contains(rest, []byte(needle)) {
			return "bad:plaintext-" + needle
		}
	}
	for len(rest) > 0 {
		if len(rest) < 5 {
			return "bad:trailing-bytes"
		}
		if rest[0] < 20 || rest[0] > 23 || rest[1] != 3 {
			return "bad:not-a-tls-record"
		}
		n := int(rest[3])<<8 | int(rest[4])
		if n > 16384+2048 || len(rest) < 5+n {
			return "bad:tls-record-length"
		}
		rest = rest[5+n:]
	}
	return "ok"
}

// runTLS drives a case whose client asks for TLS: raw In (SSLRequest, possibly followed by
// stuffed plaintext) in the prescribed segments, then a real TLS handshake, then TIn inside the
// session. Extra: nohs=1 (the client never starts the handshake), tlsver=12|13.
func runTLS(c *Case) *Result {
	s := &session{log: &evlog{}, cx: c.CX}
	cfg := &tls.Config{Certificates: []tls.Certificate{serverCert()}}
	srv, userMap, err := buildServer(c, s, cfg)
	if err != nil {
		return &Result{End: "cfgerr:" + err.Error()}
	}
	before := renderKV(userMap)
	d := newDuplex()
	l := NewListener()
	served := make(chan error, 1)
	go func() { served <- srv.Serve(l) }()
	l.ch <- srvEnd{d}

	var plain [][]byte
	var pmu sync.Mutex
	hs := "-"
	go func() {
		defer func() {
			d.mu.Lock()
			d.cliDone = true
			d.cond.Broadcast()
			d.mu.Unlock()
		}()
		cl := cliEnd{d}
		segs := segments(c.In, c.Cuts)
		for i, sg := range segs {
			if _, err := cl.Write(sg); err != nil {
				return
			}
			if i < len(segs)-1 {
				// let the server consume this segment before the next one arrives
				d.waitFor(hangTimeout(), func() bool { return (d.srvWaiting && len(d.toServer) == 0) || d.srvClosed })
			}
		}
		one := make([]byte, 1)
		if _, err := io.ReadFull(cl, one); err != nil {
			return
		}
		pmu.Lock()
		plain = append(plain, []byte{one[0]})
		pmu.Unlock()
		if one[0] != 'S' || c.Extra["nohs"] == "1" {
			// no upgrade: whatever else arrives is recorded raw
			buf := make([]byte, 1<<16)
			for {
				n, err := cl.Read(buf)
				if n > 0 && one[0] != 'S' {
					// after an 'S' the raw bytes are the server's TLS records (an alert when the
					// handshake cannot start): the tap verdict covers them
					pmu.Lock()
					plain = append(plain, append([]byte(nil), buf[:n]...))
					pmu.Unlock()
				}
				if err != nil {
					return
				}
			}
		}
		ccfg := &tls.Config{InsecureSkipVerify: true}
		if c.Extra["tlsver"] == "12" {
			ccfg.MaxVersion = tls.VersionTLS12
		}
		tc := tls.Client(cl, ccfg)
		if err := tc.Handshake(); err != nil {
			hs = "fail"
			return
		}
		hs = "ok"
		if len(c.TIn) > 0 {
			if _, err := tc.Write(c.TIn); err != nil {
				return
			}
		}
		if c.EOF {
			tc.CloseWrite()
		}
		buf := make([]byte, 1<<16)
		for {
			n, err := tc.Read(buf)
			if n > 0 {
				pmu.Lock()
				plain = append(plain, append([]byte(nil), buf[:n]...))
				pmu.Unlock()
			}
			if err != nil {
				return
			}
		}
	}()

	quiet := func() bool {
		idle := d.cliDone || (d.cliWaiting && len(d.toClient) == 0)
		return idle && (d.srvClosed || (d.srvWaiting && len(d.toServer) == 0)) && len(d.toClient) == 0
	}
	ok := d.waitFor(hangTimeout(), quiet)
	// the client's reader may be between "record received" and "plaintext recorded": settle
	time.Sleep(200 * time.Microsecond)
	ok = ok && d.waitFor(hangTimeout(), quiet)
	r := &Result{Alloc: -1}
	d.mu.Lock()
	switch {
	case !ok:
		r.End = "hang"
	case d.srvClosed:
		r.End = "c"
	default:
		r.End = "w"
	}
	var raw []byte
	for _, w := range d.tap {
		raw = append(raw, w...)
	}
	d.mu.Unlock()
	pmu.Lock()
	r.Out = append(r.Out, plain...)
	pmu.Unlock()
	for range r.Out {
		r.At = append(r.At, 0)
	}
	r.Ev = s.log.snapshot()
	r.Tap = tapVerdict(raw)
	r.HS = hs
	d.mu.Lock()
	if d.dlArmed && !d.srvClosed {
		// (crypto/tls itself sets a write deadline while closing; a deadline that is still armed on a
		// connection that stays open will kill the session when it expires)
		r.Tap += "+deadline-left-armed"
	}
	d.mu.Unlock()
	cliEnd{d}.Close()
	d.waitFor(hangTimeout(), func() bool { return d.srvClosed })
	d.mu.Lock()
	r.Fin = "0"
	if d.srvClosed {
		r.Fin = "1"
	}
	d.mu.Unlock()
	srv.Close()
	<-served
	for _, ctx := range s.ctxs {
		r.Done = append(r.Done, ctx.Err() != nil)
	}
	r.Retain = s.checkRetained()
	r.Closes = 1
	if renderKV(userMap) == before {
		r.UserMap = "same"
	} else {
		r.UserMap = "changed"
	}
	return r
}
