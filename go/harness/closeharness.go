package main

import (
	"bytes"
	"fmt"
	"math/rand"
	"runtime"
	"strconv"
	"strings"
	"sync"
	"time"

	wire "github.com/jeroenrinzema/psql-wire"
)

// C16: forced schedules through the verif hooks (build tag verif) in Server.Close,
// Server.admit and around the command handler.
//
// Case fields: closers=<k> cmds=<conn>:<kind>,… sched=<action>,…
//   cS<i>  closer i runs the critical section of Close   (released from close:enter, parks at close:wait)
//   cR<i>  closer i waits for the wait group and returns (released from close:wait)
//   wA<j>  command j is delivered to its connection: admission, then the handler parks at handler:start
//   wF<j>  the handler of command j runs to completion
//   wP<j>  command j is delivered and its admission is HELD inside `admit`, right after the closing
//          check (schedule point admit:checked; in the library this is inside the critical section)
//   wG<j>  the held admission goes on: the handler parks at handler:start
//   wO<j>  the connection of command j sends the header of an oversized message and stalls in its body
//   wZ<j>  the connection of command j sends a COMPLETE oversized message (limit 256) whose body looks like
//          protocol messages: it is skipped in full and answered with one ErrorResponse 54000, closing or not
//   cT<i>  closer i tries to return now (cT<i>:ret) - or cannot yet (cT<i>:no), which is no error
// A closer started (cS) while an admission is held cannot enter its critical section: cS<i>:blk;
// it completes by itself as soon as the admission is let go.
// Result events: one token per action (cS0, cR0:ret, wA0:adm|ref|lost, wF0) and
// viol=<list> for violations observed directly on the real code.

func goid() int64 {
	var buf [64]byte
	n := runtime.Stack(buf[:], false)
	f := bytes.Fields(buf[:n])
	id, _ := strconv.ParseInt(string(f[1]), 10, 64)
	return id
}

type closeCtl struct {
	mu          sync.Mutex
	cond        *sync.Cond
	role        map[int64]string // goid -> "c<i>" | "w<conn>"
	parked      map[string]string
	release     map[string]string // role -> point it may pass
	clock       int
	started     int // handlers started
	ended       int
	returns     int // Close calls returned
	viol        []string
	pendingConn int             // connection whose goroutine is expected to show up next (-1: none)
	holdChecked map[string]bool // roles whose admission is to be held at admit:checked
}

func (c *closeCtl) hook(point string) {
	id := goid()
	c.mu.Lock()
	defer c.mu.Unlock()
	role, ok := c.role[id]
	if !ok {
		if strings.HasPrefix(point, "close:") {
			return // an unregistered closer (srv.Close at teardown)
		}
		if c.pendingConn < 0 {
			return
		}
		role = "w" + strconv.Itoa(c.pendingConn)
		c.role[id] = role
	}
	c.clock++
	switch point {
	case "handler:start":
		if role[0] != 'w' {
			return
		}
		if c.returns > 0 {
			c.viol = append(c.viol, "handler-started-after-Close-returned")
		}
		c.started++
	case "handler:end":
		if role[0] == 'w' {
			c.ended++
		}
		return
	case "close:return":
		if role[0] != 'c' {
			return
		}
		if c.started != c.ended {
			c.viol = append(c.viol, "Close-returned-while-handler-running")
		}
		c.returns++
		c.parked[role] = "returned"
		c.cond.Broadcast()
		return
	case "close:enter", "close:wait":
	case "admit:checked":
		if !c.holdChecked[role] {
			return
		}
		delete(c.holdChecked, role)
	default:
		return // other points inside the critical sections are never parked at
	}
	if point == "handler:start" || point == "close:enter" || point == "close:wait" || point == "admit:checked" {
		c.parked[role] = point
		c.cond.Broadcast()
		for c.release[role] != point {
			c.cond.Wait()
		}
		delete(c.release, role)
		c.parked[role] = ""
	}
}

func (c *closeCtl) waitParked(role string, points ...string) (string, bool) {
	return c.waitParkedFor(1500*time.Millisecond, role, points...)
}

func (c *closeCtl) waitParkedFor(d time.Duration, role string, points ...string) (string, bool) {
	deadline := time.Now().Add(d)
	c.mu.Lock()
	defer c.mu.Unlock()
	for {
		for _, p := range points {
			if c.parked[role] == p {
				return p, true
			}
		}
		if time.Now().After(deadline) {
			return c.parked[role], false
		}
		c.mu.Unlock()
		time.Sleep(50 * time.Microsecond)
		c.mu.Lock()
	}
}

func (c *closeCtl) let(role, point string) {
	c.mu.Lock()
	c.release[role] = point
	c.cond.Broadcast()
	c.mu.Unlock()
}

func runClose(cs *Case) *Result {
	k, _ := strconv.Atoi(cs.Extra["closers"])
	type cmd struct {
		conn int
		kind string
	}
	var cmds []cmd
	nconn := 0
	if cs.Extra["cmds"] != "" {
		for _, p := range strings.Split(cs.Extra["cmds"], ",") {
			f := strings.Split(p, ":")
			ci, _ := strconv.Atoi(f[0])
			cmds = append(cmds, cmd{ci, f[1]})
			if ci+1 > nconn {
				nconn = ci + 1
			}
		}
	}
	ctl := &closeCtl{role: map[int64]string{}, parked: map[string]string{}, release: map[string]string{}, pendingConn: -1, holdChecked: map[string]bool{}}
	ctl.cond = sync.NewCond(&ctl.mu)
	hook := ctl.hook
	wire.VerifHook.Store(&hook)
	defer wire.VerifHook.Store(nil)

	s := &session{log: &evlog{}}
	base := &Case{GPNil: true, WF: -1, L: 256, Extra: map[string]string{}}
	srv, _, err := buildServer(base, s, nil)
	if err != nil {
		return &Result{End: "cfgerr"}
	}
	l := NewListener()
	served := make(chan error, 1)
	go func() { served <- srv.Serve(l) }()
	conns := make([]*Conn, nconn)
	for i := range conns {
		// every connection has a portal whose Execute makes the row encoder panic (result-format code 7):
		// the library recovers from that panic; the command still counts as finished (kind "x")
		prep := append(plainStartup("u"+strconv.Itoa(i)), msgParse("ps", "t//r:t"+hxs("a")+";c:"+hxs("OK")+"/ok", nil)...)
		prep = append(prep, msgBind("pp", "ps", nil, nil, []uint16{7})...)
		prep = append(prep, msgSync()...)
		conns[i] = NewConn([][]byte{prep}, false, -1)
		conns[i].name = "client" + strconv.Itoa(i)
		l.ch <- conns[i]
		conns[i].WaitQuiescent(5 * time.Second)
	}
	quiet := func(i int) bool {
		conns[i].mu.Lock()
		defer conns[i].mu.Unlock()
		return conns[i].waiting && len(conns[i].segs) == 0 && len(conns[i].cur) == 0
	}
	// closers
	for i := 0; i < k; i++ {
		i := i
		ready := make(chan struct{})
		go func() {
			ctl.mu.Lock()
			ctl.role[goid()] = "c" + strconv.Itoa(i)
			ctl.mu.Unlock()
			close(ready)
			srv.Close()
			// the return of Close is observed here as well: a Close that returns without passing
			// its last schedule point (an early return) must not escape the bookkeeping
			ctl.mu.Lock()
			role := "c" + strconv.Itoa(i)
			if ctl.parked[role] != "returned" {
				if ctl.started != ctl.ended {
					ctl.viol = append(ctl.viol, "Close-returned-while-handler-running")
				}
				ctl.returns++
				ctl.parked[role] = "returned"
				ctl.cond.Broadcast()
			}
			ctl.mu.Unlock()
		}()
		<-ready
		ctl.waitParked("c"+strconv.Itoa(i), "close:enter")
	}
	var ev []string
	hang := false
	held := map[string]bool{} // worker roles held at admit:checked
	var blocked []string      // closers waiting for the mutex meanwhile
	deliver := func(idx int) (string, int) {
		cm := cmds[idx]
		role := "w" + strconv.Itoa(cm.conn)
		ctl.mu.Lock()
		ctl.pendingConn = cm.conn
		ctl.mu.Unlock()
		var msg []byte
		switch cm.kind {
		case "q":
			msg = msgQuery(probeQuery("c"+strconv.Itoa(idx), 0))
		case "p":
			msg = msgParse("", "!B"+hxs("no"), nil)
		case "b":
			msg = msgBind("", "", nil, nil, nil)
		case "s":
			msg = msgSync()
		case "x":
			msg = msgExecute("pp", 0)
		}
		conns[cm.conn].mu.Lock()
		conns[cm.conn].segs = append(conns[cm.conn].segs, msg)
		conns[cm.conn].cond.Broadcast()
		conns[cm.conn].mu.Unlock()
		return role, cm.conn
	}
	for _, a := range strings.Split(cs.Extra["sched"], ",") {
		if a == "" || hang {
			continue
		}
		idx, _ := strconv.Atoi(a[2:])
		switch a[:2] {
		case "cS":
			role := "c" + strconv.Itoa(idx)
			ctl.let(role, "close:enter")
			wait := 1500 * time.Millisecond
			if len(held) > 0 {
				wait = 300 * time.Millisecond // expected to block on the mutex
			}
			if _, ok := ctl.waitParkedFor(wait, role, "close:wait", "returned"); !ok {
				if len(held) > 0 {
					// an admission is being held inside its critical section: the closer waits for the mutex
					ev = append(ev, a+":blk")
					blocked = append(blocked, role)
					continue
				}
				ev = append(ev, a+":hang")
				hang = true
				continue
			}
			ev = append(ev, a)
		case "cT": // closer idx tries to finish: released from close:wait if it is there; no error if it cannot
			role := "c" + strconv.Itoa(idx)
			ctl.mu.Lock()
			at := ctl.parked[role]
			ctl.mu.Unlock()
			out := "no"
			if at == "close:wait" {
				ctl.let(role, "close:wait")
				if _, ok := ctl.waitParkedFor(300*time.Millisecond, role, "returned"); ok {
					out = "ret"
				}
			} else if at == "returned" {
				out = "ret"
			}
			ev = append(ev, a+":"+out)
		case "cR":
			role := "c" + strconv.Itoa(idx)
			ctl.mu.Lock()
			already := ctl.parked[role] == "returned"
			ctl.mu.Unlock()
			if !already {
				ctl.let(role, "close:wait")
			}
			if _, ok := ctl.waitParked(role, "returned"); !ok {
				ev = append(ev, a+":hang")
				ctl.mu.Lock()
				ctl.viol = append(ctl.viol, "Close-did-not-return")
				ctl.mu.Unlock()
				hang = true
				continue
			}
			ev = append(ev, a+":ret")
		case "wA":
			cm := cmds[idx]
			role := "w" + strconv.Itoa(cm.conn)
			ctl.mu.Lock()
			ctl.pendingConn = cm.conn
			ctl.mu.Unlock()
			var msg []byte
			switch cm.kind {
			case "q":
				msg = msgQuery(probeQuery("c"+strconv.Itoa(idx), 0))
			case "p": // a Parse the parser rejects
				msg = msgParse("", "!B"+hxs("no"), nil)
			case "b":
				msg = msgBind("", "", nil, nil, nil)
			case "s":
				msg = msgSync()
			case "x":
				msg = msgExecute("pp", 0)
			}
			conns[cm.conn].mu.Lock()
			conns[cm.conn].segs = append(conns[cm.conn].segs, msg)
			conns[cm.conn].cond.Broadcast()
			conns[cm.conn].mu.Unlock()
			// admitted (parks at handler:start) or refused (goes back to reading)
			deadline := time.Now().Add(1500 * time.Millisecond)
			out := "lost"
			for time.Now().Before(deadline) {
				ctl.mu.Lock()
				p := ctl.parked[role]
				ctl.mu.Unlock()
				if p == "handler:start" {
					out = "adm"
					break
				}
				if quiet(cm.conn) {
					out = "ref"
					break
				}
				time.Sleep(50 * time.Microsecond)
			}
			ev = append(ev, a+":"+out)
		case "wO": // the connection stalls in the middle of an oversized message: no command is admitted
			cm := cmds[idx]
			ctl.mu.Lock()
			ctl.pendingConn = cm.conn
			ctl.mu.Unlock()
			msg := typedLen('Q', 1<<25, []byte("0123456789abcdef"))
			conns[cm.conn].mu.Lock()
			conns[cm.conn].segs = append(conns[cm.conn].segs, msg)
			conns[cm.conn].cond.Broadcast()
			conns[cm.conn].mu.Unlock()
			out := "lost"
			deadline := time.Now().Add(1500 * time.Millisecond)
			for time.Now().Before(deadline) {
				if quiet(cm.conn) {
					out = "stall"
					break
				}
				time.Sleep(50 * time.Microsecond)
			}
			ev = append(ev, a+":"+out)
		case "wZ":
			cm := cmds[idx]
			body := make([]byte, 300+idx)
			for j := range body {
				body[j] = 'Y'
			}
			copy(body, append(msgSync(), msgQuery(probeQuery("INJECTED", 0))...))
			conns[cm.conn].mu.Lock()
			before := len(conns[cm.conn].writes)
			conns[cm.conn].segs = append(conns[cm.conn].segs, typed('P', body))
			conns[cm.conn].cond.Broadcast()
			conns[cm.conn].mu.Unlock()
			out := "lost"
			deadline := time.Now().Add(1500 * time.Millisecond)
			for time.Now().Before(deadline) {
				if quiet(cm.conn) {
					out = "rec"
					break
				}
				time.Sleep(50 * time.Microsecond)
			}
			conns[cm.conn].mu.Lock()
			var fresh []byte
			for _, w := range conns[cm.conn].writes[before:] {
				fresh = append(fresh, w...)
			}
			conns[cm.conn].mu.Unlock()
			if out == "rec" && !(len(fresh) > 0 && fresh[0] == 'E' && bytes.Contains(fresh, []byte("C54000\x00")) && bytes.Count(fresh, []byte("SERROR\x00")) == 1) {
				ctl.mu.Lock()
				ctl.viol = append(ctl.viol, "oversized-message-not-skipped-and-answered-once")
				ctl.mu.Unlock()
			}
			ev = append(ev, a+":"+out)
		case "wP":
			cm := cmds[idx]
			role := "w" + strconv.Itoa(cm.conn)
			ctl.mu.Lock()
			ctl.holdChecked[role] = true
			ctl.mu.Unlock()
			deliver(idx)
			deadline := time.Now().Add(1500 * time.Millisecond)
			out := "lost"
			for time.Now().Before(deadline) {
				ctl.mu.Lock()
				p := ctl.parked[role]
				ctl.mu.Unlock()
				if p == "admit:checked" {
					out = "chk"
					held[role] = true
					break
				}
				if p == "handler:start" {
					out = "adm" // not held: the schedule point was not passed
					break
				}
				if quiet(cm.conn) {
					out = "ref"
					break
				}
				time.Sleep(50 * time.Microsecond)
			}
			ctl.mu.Lock()
			delete(ctl.holdChecked, role)
			ctl.mu.Unlock()
			ev = append(ev, a+":"+out)
		case "wG":
			cm := cmds[idx]
			role := "w" + strconv.Itoa(cm.conn)
			ctl.let(role, "admit:checked")
			delete(held, role)
			out := "lost"
			if _, ok := ctl.waitParked(role, "handler:start"); ok {
				out = "adm"
			} else if quiet(cm.conn) {
				out = "ref"
			}
			ev = append(ev, a+":"+out)
			// closers that were waiting for the mutex now get through their critical section
			for _, cr := range blocked {
				if _, ok := ctl.waitParked(cr, "close:wait", "returned"); !ok {
					ev = append(ev, cr+":stuck")
					hang = true
				}
			}
			blocked = nil
		case "wF":
			cm := cmds[idx]
			role := "w" + strconv.Itoa(cm.conn)
			ctl.let(role, "handler:start")
			deadline := time.Now().Add(1500 * time.Millisecond)
			for time.Now().Before(deadline) && !quiet(cm.conn) {
				time.Sleep(50 * time.Microsecond)
			}
			ev = append(ev, a)
		}
	}
	// let everything finish
	ctl.mu.Lock()
	for r := range ctl.parked {
		ctl.release[r] = ctl.parked[r]
	}
	for i := 0; i < k; i++ {
		ctl.release["c"+strconv.Itoa(i)] = "close:enter"
	}
	ctl.cond.Broadcast()
	ctl.mu.Unlock()
	go func() { // keep releasing whoever parks during teardown
		for i := 0; i < 2000; i++ {
			ctl.mu.Lock()
			for r, p := range ctl.parked {
				if p != "" && p != "returned" {
					ctl.release[r] = p
				}
			}
			ctl.cond.Broadcast()
			ctl.mu.Unlock()
			time.Sleep(time.Millisecond)
		}
	}()
	for _, c := range conns {
		c.Hangup()
	}
	serveRes := "none"
	closed := make(chan struct{})
	go func() { srv.Close(); close(closed) }()
	select {
	case <-closed:
	case <-time.After(1500 * time.Millisecond):
		ctl.mu.Lock()
		ctl.viol = append(ctl.viol, "final-Close-did-not-return")
		ctl.mu.Unlock()
	}
	select {
	case e := <-served:
		if e == nil {
			serveRes = "nil"
		} else {
			serveRes = "err"
			ctl.viol = append(ctl.viol, "Serve-returned-error")
		}
	case <-time.After(1500 * time.Millisecond):
		ctl.viol = append(ctl.viol, "Serve-did-not-return")
	}
	ctl.mu.Lock()
	viol := strings.Join(ctl.viol, "+")
	ctl.mu.Unlock()
	if viol == "" {
		viol = "-"
	}
	return &Result{Ev: append(ev, "serve="+serveRes, "viol="+viol), End: "c", Retain: "ok", UserMap: "same"}
}

// genClose produces schedules that are enabled in the abstract protocol (closers' wait step
// only when no admitted command is running).
func genClose(r *rand.Rand, id string) *Case {
	c := baseCase(id, "close")
	if r.Intn(6) == 0 {
		// the admission of a command is held inside `admit` while closers arrive: in the library the
		// closing check and wg.Add are one critical section, so a Close cannot slip in between
		c.Extra["cmds"] = "0:q"
		c.Extra["direct"] = "close"
		switch r.Intn(5) {
		case 0:
			c.Extra["closers"] = "1"
			c.Extra["sched"] = "wP0,cS0,wG0,wF0,cR0"
		case 1:
			c.Extra["closers"] = "2"
			c.Extra["sched"] = "wP0,cS0,cS1,wG0,wF0,cR1,cR0"
		case 2:
			c.Extra["closers"] = "1"
			c.Extra["sched"] = "cS0,wP0,cR0"
		case 3:
			// a client stalled inside an oversized message holds no admitted command: Close returns
			c.Extra["closers"] = "1"
			c.Extra["sched"] = "wO0,cS0,cR0"
		default:
			// the closer tries to return while the admission is still held
			c.Extra["closers"] = "1"
			c.Extra["sched"] = "wP0,cS0,cT0,wG0,wF0,cR0"
		}
		return c
	}
	if r.Intn(8) == 0 {
		// a complete oversized message arrives before, while and after a Close: recovered every time; and a
		// command whose handler panics (recovered by the library) does not keep Close from returning
		c.Extra["direct"] = "close"
		c.Extra["closers"] = "1"
		switch r.Intn(6) {
		case 4:
			// two closers are both INSIDE their wait (released from close:wait, blocked on the running
			// command) when the handler finishes: both must return
			c.Extra["closers"] = "2"
			c.Extra["cmds"] = "0:q"
			c.Extra["sched"] = "wA0,cS0,cS1,cT0,cT1,wF0,cR0,cR1"
		case 5:
			c.Extra["closers"] = "3"
			c.Extra["cmds"] = "0:q"
			c.Extra["sched"] = "wA0,cS0,cT0,cS1,cT1,cS2,cT2,wF0,cR2,cR0,cR1"
		case 0:
			c.Extra["cmds"] = "0:q,1:q"
			c.Extra["sched"] = "wZ1,wA0,cS0,wZ1,wF0,cR0,wZ1"
		case 1:
			c.Extra["cmds"] = "0:q"
			c.Extra["sched"] = "cS0,wZ0,cR0,wZ0"
		case 2:
			c.Extra["cmds"] = "0:x"
			c.Extra["sched"] = "wA0,wF0,cS0,cR0"
		default:
			c.Extra["cmds"] = "0:x,1:q"
			c.Extra["sched"] = "wA0,cS0,wF0,wA1,cR0"
		}
		return c
	}
	k := 1 + r.Intn(3)
	nconn := 1 + r.Intn(2)
	type cmdT struct {
		conn int
		kind string
	}
	var cmds []cmdT
	ncmd := r.Intn(4)
	failed := map[int]bool{}
	for i := 0; i < ncmd; i++ {
		ci := r.Intn(nconn)
		kind := "q"
		switch r.Intn(5) {
		case 0:
			kind = "p"
			failed[ci] = true
		case 1:
			if failed[ci] {
				kind = "b"
			}
		case 2:
			if failed[ci] {
				kind = "s"
				failed[ci] = false
			}
		}
		cmds = append(cmds, cmdT{ci, kind})
	}
	// abstract simulation
	closing := false
	cpc := make([]int, k)    // 0 start, 1 waiting, 2 returned
	wpc := make([]int, ncmd) // 0 start, 1 running, 2 finished, 3 refused
	busy := make([]int, nconn)
	for i := range busy {
		busy[i] = -1
	}
	next := make([]int, nconn) // next command index per connection (in cmds order)
	running := 0
	var sched []string
	for step := 0; step < 40; step++ {
		var en []string
		for i := 0; i < k; i++ {
			if cpc[i] == 0 {
				en = append(en, "cS"+strconv.Itoa(i))
			}
			if cpc[i] == 1 && running == 0 {
				en = append(en, "cR"+strconv.Itoa(i))
			}
		}
		for j := 0; j < ncmd; j++ {
			cj := cmds[j].conn
			if wpc[j] == 0 && busy[cj] < 0 {
				// commands of a connection are delivered in order
				first := true
				for j2 := 0; j2 < j; j2++ {
					if cmds[j2].conn == cj && wpc[j2] == 0 {
						first = false
					}
				}
				if first {
					en = append(en, "wA"+strconv.Itoa(j))
				}
			}
			if wpc[j] == 1 {
				en = append(en, "wF"+strconv.Itoa(j))
			}
		}
		_ = next
		if len(en) == 0 {
			break
		}
		a := en[r.Intn(len(en))]
		// bias: let commands start before the closers move, so that Close overlaps running handlers
		if step < 3 {
			for _, e := range en {
				if strings.HasPrefix(e, "wA") && r.Intn(2) == 0 {
					a = e
				}
			}
		}
		idx, _ := strconv.Atoi(a[2:])
		switch a[:2] {
		case "cS":
			closing = true
			cpc[idx] = 1
		case "cR":
			cpc[idx] = 2
		case "wA":
			if closing {
				wpc[idx] = 3
			} else {
				wpc[idx] = 1
				running++
				busy[cmds[idx].conn] = idx
			}
		case "wF":
			wpc[idx] = 2
			running--
			busy[cmds[idx].conn] = -1
		}
		sched = append(sched, a)
	}
	parts := make([]string, len(cmds))
	for i, cm := range cmds {
		parts[i] = fmt.Sprintf("%d:%s", cm.conn, cm.kind)
	}
	c.Extra["closers"] = strconv.Itoa(k)
	c.Extra["cmds"] = strings.Join(parts, ",")
	c.Extra["sched"] = strings.Join(sched, ",")
	c.Extra["direct"] = "close"
	return c
}

func init() { generators["close"] = genClose }
