module verif/harness

go 1.23.0

require (
	github.com/jackc/pgx/v5 v5.4.3
	github.com/jeroenrinzema/psql-wire v0.0.0
	github.com/lib/pq v1.10.9
)

replace github.com/jeroenrinzema/psql-wire => /repo
