package main

import (
	"encoding/binary"
	"encoding/hex"
	"fmt"
	"math/rand"
	"strconv"
	"strings"
)

func be32(n uint32) []byte { b := make([]byte, 4); binary.BigEndian.PutUint32(b, n); return b }
func be16(n uint16) []byte { b := make([]byte, 2); binary.BigEndian.PutUint16(b, n); return b }

func typed(t byte, body []byte) []byte {
	out := []byte{t}
	out = append(out, be32(uint32(len(body)+4))...)
	return append(out, body...)
}

// typedLen builds a message whose declared length differs from the body sent.
func typedLen(t byte, declared uint32, body []byte) []byte {
	out := []byte{t}
	out = append(out, be32(declared)...)
	return append(out, body...)
}

func cstr(s string) []byte { return append([]byte(s), 0) }

func startup(version uint32, kv [][2]string, terminator bool) []byte {
	body := be32(version)
	for _, p := range kv {
		body = append(body, cstr(p[0])...)
		body = append(body, cstr(p[1])...)
	}
	if terminator {
		body = append(body, 0)
	}
	return append(be32(uint32(len(body)+4)), body...)
}

func msgQuery(q string) []byte    { return typed('Q', cstr(q)) }
func msgPassword(p string) []byte { return typed('p', cstr(p)) }
func msgSync() []byte             { return typed('S', nil) }
func msgFlush() []byte            { return typed('H', nil) }
func msgTerminate() []byte        { return typed('X', nil) }
func msgCopyData(p []byte) []byte { return typed('d', p) }
func msgCopyDone() []byte         { return typed('c', nil) }
func msgCopyFail(d string) []byte { return typed('f', cstr(d)) }

func msgParse(name, query string, oids []uint32) []byte {
	b := append(cstr(name), cstr(query)...)
	b = append(b, be16(uint16(len(oids)))...)
	for _, o := range oids {
		b = append(b, be32(o)...)
	}
	return typed('P', b)
}

type bindParam struct {
	null bool
	v    []byte
}

func msgBind(portal, stmt string, pfmts []uint16, params []bindParam, rfmts []uint16) []byte {
	b := append(cstr(portal), cstr(stmt)...)
	b = append(b, be16(uint16(len(pfmts)))...)
	for _, f := range pfmts {
		b = append(b, be16(f)...)
	}
	b = append(b, be16(uint16(len(params)))...)
	for _, p := range params {
		if p.null {
			b = append(b, 0xff, 0xff, 0xff, 0xff)
		} else {
			b = append(b, be32(uint32(len(p.v)))...)
			b = append(b, p.v...)
		}
	}
	b = append(b, be16(uint16(len(rfmts)))...)
	for _, f := range rfmts {
		b = append(b, be16(f)...)
	}
	return typed('B', b)
}

func msgDescribe(kind byte, name string) []byte {
	return typed('D', append([]byte{kind}, cstr(name)...))
}
func msgClose(kind byte, name string) []byte { return typed('C', append([]byte{kind}, cstr(name)...)) }
func msgExecute(name string, limit uint32) []byte {
	return typed('E', append(cstr(name), be32(limit)...))
}

// ---- script text generation ----

func hxs(s string) string { return hex.EncodeToString([]byte(s)) }

var colLetters = []byte("bsiltvyuz")

type genCol struct {
	letter byte
	name   string
}

func randBytes(r *rand.Rand, n int, nulFree bool) []byte {
	b := make([]byte, n)
	for i := range b {
		b[i] = byte(r.Intn(256))
		if nulFree && b[i] == 0 {
			b[i] = 1
		}
	}
	return b
}

var boundaryInts = []int64{0, 1, -1, 127, 128, -128, 32767, 32768, -32768, -32769, 2147483647, 2147483648, -2147483648, -2147483649, 9223372036854775807, -9223372036854775807}

func genValFor(r *rand.Rand, letter byte) string {
	switch r.Intn(12) {
	case 0:
		return "n"
	case 1:
		return "N"
	case 2:
		return "V"
	}
	switch letter {
	case 'b':
		return "b" + strconv.Itoa(r.Intn(2))
	case 's', 'i', 'l':
		if r.Intn(3) == 0 {
			return "i" + strconv.FormatInt(boundaryInts[r.Intn(len(boundaryInts))], 10)
		}
		switch letter {
		case 's':
			return "i" + strconv.Itoa(r.Intn(65536)-32768)
		case 'i':
			return "i" + strconv.FormatInt(int64(int32(r.Uint32())), 10)
		}
		return "i" + strconv.FormatInt(int64(r.Uint64()>>uint(r.Intn(64))), 10)
	case 't', 'v', 'z':
		return "t" + hex.EncodeToString(randBytes(r, r.Intn(6), false))
	case 'y':
		return "y" + hex.EncodeToString(randBytes(r, r.Intn(6), false))
	case 'u':
		return "u" + hex.EncodeToString(randBytes(r, 16, false))
	case 'f':
		return "f" + hex.EncodeToString(randBytes(r, 4, false))
	case 'd':
		return "d" + hex.EncodeToString(randBytes(r, 8, false))
	}
	return "n"
}

func genRow(r *rand.Rand, cols []genCol) string {
	n := len(cols)
	switch r.Intn(10) {
	case 0: // wrong arity
		if r.Intn(2) == 0 && n > 0 {
			n--
		} else {
			n++
		}
	}
	vals := make([]string, n)
	for i := 0; i < n; i++ {
		letter := byte('t')
		if i < len(cols) {
			letter = cols[i].letter
		}
		switch r.Intn(15) {
		case 0:
			vals[i] = "x"
		case 1: // wrong kind for the column
			vals[i] = genValFor(r, colLetters[r.Intn(len(colLetters))])
		default:
			vals[i] = genValFor(r, letter)
		}
	}
	return "r:" + strings.Join(vals, ",")
}

var sqlstates = []string{"42601", "XX000", "23505", "0A000", "XXUUU", "57014", "P0001"}
var severities = []string{"ERROR", "FATAL", "PANIC", "WARNING", "NOTICE", ""}

func genText(r *rand.Rand) string {
	words := []string{"boom", "x", "", "relation does not exist", "é", "a b", "100%", "%s%d", "line\nbreak",
		"a_constraint_or_message_text_of_more_than_sixty_three_bytes_0123456789_abcdefghij"}
	return words[r.Intn(len(words))]
}

func genErrSpec(r *rand.Rand, depth int) string {
	var nodes []string
	for i := 0; i < depth; i++ {
		switch r.Intn(8) {
		case 0:
			nodes = append(nodes, "C"+hxs(sqlstates[r.Intn(len(sqlstates))]))
		case 1:
			nodes = append(nodes, "S"+hxs(severities[r.Intn(len(severities))]))
		case 2:
			nodes = append(nodes, "H"+hxs(genText(r)))
		case 3:
			nodes = append(nodes, "D"+hxs(genText(r)))
		case 4:
			lines := []int64{0, 1, 258, -1, 65536, 2147483647, -2147483648, 433}
			nodes = append(nodes, fmt.Sprintf("F%s:%d:%s", hxs(genText(r)), lines[r.Intn(len(lines))], hxs(genText(r))))
		case 5:
			nodes = append(nodes, "N"+hxs(genText(r)))
		case 6:
			nodes = append(nodes, "W"+hxs(genText(r)+": ")+":"+hxs(""))
		case 7:
			nodes = append(nodes, "W"+hxs("")+":"+hxs(" ("+genText(r)+")"))
		}
	}
	// some decorations are applied and discarded (see parseErrSpec): they must not show
	for i := range nodes {
		if r.Intn(6) == 0 {
			nodes[i] = "x" + nodes[i]
		}
	}
	nodes = append(nodes, "B"+hxs(genText(r)))
	return strings.Join(nodes, ".")
}

func genCols(r *rand.Rand, max int) ([]genCol, string) {
	n := r.Intn(max + 1)
	cols := make([]genCol, n)
	parts := make([]string, n)
	for i := range cols {
		cols[i].letter = colLetters[r.Intn(len(colLetters))]
		parts[i] = string(cols[i].letter)
		if r.Intn(4) == 0 {
			names := []string{"id", "name", "", "a b", "long_column_name_with_many_characters_0123456789", "é"}
			parts[i] += "=" + hxs(names[r.Intn(len(names))])
		}
		if r.Intn(5) == 0 {
			parts[i] += "~" // table id, attribute number, width and type modifier set on the column
		}
	}
	return cols, strings.Join(parts, ",")
}

// genStmtScript produces one statement script. copy: allow COPY operations.
func genStmtScript(r *rand.Rand, allowCopy bool, maxOps int) string {
	cols, colspec := genCols(r, 4)
	var params []string
	switch r.Intn(4) {
	case 0:
		params = []string{"P"}
	case 1:
		for i := 0; i < r.Intn(4); i++ {
			params = append(params, strconv.Itoa([]int{0, 23, 25, 16, 20, 17, 1043}[r.Intn(7)]))
		}
	}
	nops := r.Intn(maxOps + 1)
	var ops []string
	for i := 0; i < nops; i++ {
		var o string
		switch k := r.Intn(20); {
		case k < 9:
			o = genRow(r, cols)
		case k < 12:
			tags := []string{"SELECT 1", "INSERT 0 1", "", "OK", "UPDATE 42"}
			o = "c:" + hxs(tags[r.Intn(len(tags))])
		case k < 13:
			o = "e"
		case k < 16:
			o = "w"
		case k < 17:
			o = "s:" + strconv.Itoa([]int{23, 25, 16, 20, 21, 17, 2950}[r.Intn(7)]) + "," + strconv.Itoa(r.Intn(3))
		default:
			if allowCopy {
				switch r.Intn(5) {
				case 0:
					o = "g:" + strconv.Itoa(r.Intn(2))
				case 1:
					o = "k"
				case 2:
					o = "K" + strconv.Itoa(1+r.Intn(4))
				case 3:
					o = "B"
				case 4:
					o = "A" + strconv.Itoa(1+r.Intn(4))
				}
			} else {
				o = "w"
			}
		}
		if r.Intn(3) == 0 && o != "w" && !strings.HasPrefix(o, "s:") {
			o += "?"
		}
		ops = append(ops, o)
	}
	ret := "ok"
	if r.Intn(5) == 0 {
		ret = "E" + genErrSpec(r, r.Intn(4))
	}
	return colspec + "/" + strings.Join(params, ",") + "/" + strings.Join(ops, ";") + "/" + ret
}

func genQueryText(r *rand.Rand, allowCopy bool) string {
	switch k := r.Intn(30); {
	case k == 0:
		return "#"
	case k == 1:
		return "!" + genErrSpec(r, r.Intn(4))
	case k == 2:
		blanks := []string{"", " ", "\t\n", "  ", "  ", "　", "\xa0", " \xc2", "​"}
		return blanks[r.Intn(len(blanks))]
	case k == 3:
		return "garbage " + strconv.Itoa(r.Intn(100))
	}
	n := 1
	if r.Intn(4) == 0 {
		n = 2 + r.Intn(2)
	}
	parts := make([]string, n)
	for i := range parts {
		parts[i] = genStmtScript(r, allowCopy, 6)
	}
	return strings.Join(parts, "|")
}
