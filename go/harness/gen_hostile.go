package main

import (
	"math/rand"
	"strconv"
	"strings"
)

// ---- C04: hostile input, faults at every position, allocation --------------------------------

var nasty32 = []uint32{0, 1, 3, 4, 5, 8, 0x7fffffff, 0x80000000, 0x80000001, 0xfffffffe, 0xffffffff, 0xffffff9c,
	0x00010000, 0x01000000, 0x10000000, 65535, 65536}
var nasty16 = []uint16{0, 1, 2, 255, 256, 0x7fff, 0x8000, 0xfffe, 0xffff}

// hostileBind: a Bind whose counts and value lengths lie.
func hostileBind(r *rand.Rand) []byte {
	body := append(cstr(pick(r, namePool)), cstr(pick(r, namePool))...)
	u16 := func(actual int) uint16 {
		if r.Intn(3) == 0 {
			return nasty16[r.Intn(len(nasty16))]
		}
		return uint16(actual)
	}
	nf := r.Intn(3)
	body = append(body, be16(u16(nf))...)
	for i := 0; i < nf; i++ {
		body = append(body, be16(uint16(r.Intn(3)))...)
	}
	np := r.Intn(4)
	body = append(body, be16(u16(np))...)
	for i := 0; i < np; i++ {
		v := randBytes(r, r.Intn(6), false)
		if r.Intn(2) == 0 {
			body = append(body, be32(nasty32[r.Intn(len(nasty32))])...)
		} else {
			body = append(body, be32(uint32(len(v)))...)
		}
		body = append(body, v...)
	}
	if r.Intn(4) != 0 {
		nr := r.Intn(3)
		body = append(body, be16(u16(nr))...)
		for i := 0; i < nr; i++ {
			body = append(body, be16(nasty16[r.Intn(len(nasty16))])...)
		}
	}
	return typed('B', body)
}

// hostileBinCopy: a binary-COPY statement followed by CopyData messages carrying a damaged stream.
func hostileBinCopy(r *rand.Rand) [][]byte {
	letters := []byte("isltybu")
	ncols := 1 + r.Intn(3)
	colspec := make([]string, ncols)
	for i := range colspec {
		colspec[i] = string(letters[r.Intn(len(letters))])
	}
	ops := []string{"g:1", "B"}
	for i := 0; i < 1+r.Intn(4); i++ {
		ops = append(ops, "b")
	}
	ops = append(ops, "c:"+hxs("COPY"))
	q := strings.Join(colspec, ",") + "//" + strings.Join(ops, ";") + "/ok"
	var stream []byte
	if r.Intn(3) != 0 {
		stream = append(stream, []byte("PGCOPY\n\377\r\n\000")...)
		stream = append(stream, be32(0)...)
		if r.Intn(4) == 0 {
			stream = append(stream, be32(nasty32[r.Intn(len(nasty32))])...)
		} else {
			stream = append(stream, be32(0)...)
		}
	}
	for i := 0; i < r.Intn(3); i++ {
		nf := uint16(ncols)
		if r.Intn(3) == 0 {
			nf = nasty16[r.Intn(len(nasty16))]
		} else if r.Intn(4) == 0 {
			nf = uint16(ncols + 1)
		}
		stream = append(stream, be16(nf)...)
		for j := 0; j < ncols+r.Intn(2); j++ {
			v := randBytes(r, []int{0, 2, 4, 8, 16, 3}[r.Intn(6)], false)
			if r.Intn(3) == 0 {
				stream = append(stream, be32(nasty32[r.Intn(len(nasty32))])...)
			} else {
				stream = append(stream, be32(uint32(len(v)))...)
			}
			stream = append(stream, v...)
		}
	}
	if r.Intn(2) == 0 {
		stream = append(stream, 0xff, 0xff)
	}
	msgs := [][]byte{msgQuery(q)}
	for len(stream) > 0 {
		n := 1 + r.Intn(len(stream))
		msgs = append(msgs, msgCopyData(stream[:n]))
		stream = stream[n:]
	}
	switch r.Intn(4) {
	case 0:
		msgs = append(msgs, msgCopyDone())
	case 1:
		msgs = append(msgs, msgCopyFail("x"))
	case 2:
		msgs = append(msgs, msgSync())
	}
	return msgs
}

// mutate damages one message: flipped bits, a lying length field, truncation, a foreign type byte.
func mutate(r *rand.Rand, m []byte) []byte {
	m = append([]byte(nil), m...)
	if len(m) < 5 {
		return m
	}
	switch r.Intn(7) {
	case 0:
		for i := 0; i < 1+r.Intn(3); i++ {
			m[r.Intn(len(m))] ^= 1 << uint(r.Intn(8))
		}
	case 1:
		copy(m[1:5], be32(nasty32[r.Intn(len(nasty32))]))
	case 2:
		d := uint32(len(m) - 1)
		copy(m[1:5], be32(d+uint32(r.Intn(5))-2))
	case 3:
		m = m[:r.Intn(len(m))]
	case 4:
		m[0] = byte(r.Intn(256))
	case 5:
		if len(m) > 9 {
			off := 5 + r.Intn(len(m)-8)
			copy(m[off:off+4], be32(nasty32[r.Intn(len(nasty32))]))
		}
	case 6:
		if len(m) > 7 {
			off := 5 + r.Intn(len(m)-6)
			copy(m[off:off+2], be16(nasty16[r.Intn(len(nasty16))]))
		}
	}
	return m
}

// genHostile: any configuration, a session of valid, lying and damaged messages in every phase
// (startup, SSL negotiation, authentication, simple/extended query, text and binary COPY through
// the library's own readers), and a transport that starts failing at a random read position
// (rf / EOF after the n-th byte) or write position (k-th Write call). Some cases carry a
// bystander connection that must be served while the hostile one is still open.
func genHostile(r *rand.Rand, id string) *Case {
	c := baseCase(id, "hostile")
	limits := []int{0, 0, 64, 256, 4096, 100}
	c.L = limits[r.Intn(len(limits))]
	genL := c.L
	if genL <= 0 || genL > 300 {
		genL = 300
	}
	var in []byte
	if r.Intn(3) == 0 {
		c.TLS = 1
	}
	switch r.Intn(10) {
	case 0:
		in = append(in, startup(80877103, nil, false)...)
	case 1:
		if m := mutate(r, append([]byte{0}, startup(80877103, nil, false)...)); len(m) > 1 {
			in = append(in, m[1:]...)
		}
	}
	st := startup(196608, [][2]string{{"user", pick(r, []string{"alice", "", "u ser"})}}, r.Intn(15) != 0)
	switch r.Intn(12) {
	case 0:
		copy(st[0:4], be32(nasty32[r.Intn(len(nasty32))]))
	case 1:
		copy(st[4:8], be32([]uint32{80877102, 80877103, 0, 196609, 0xffffffff}[r.Intn(5)]))
	case 2:
		st[r.Intn(len(st))] ^= 1 << uint(r.Intn(8))
	case 3:
		st = randBytes(r, r.Intn(24), false)
	}
	in = append(in, st...)
	if r.Intn(4) == 0 {
		c.Auth = true
		pw := msgPassword(pick(r, []string{"ok", "okay", "bad", "fail", ""}))
		if r.Intn(4) == 0 {
			pw = mutate(r, pw)
		}
		in = append(in, pw...)
	}
	if r.Intn(4) == 0 {
		c.MW = pick(r, []string{"o", "oo"})
	}
	c.Term = r.Intn(3)
	var msgs [][]byte
	for i := 0; i < r.Intn(10); i++ {
		switch k := r.Intn(12); {
		case k < 2:
			msgs = append(msgs, hostileBind(r))
		case k < 4:
			msgs = append(msgs, hostileBinCopy(r)...)
		case k < 5:
			// ParseParameters on client-chosen text (the script's 'P' parameter mode)
			msgs = append(msgs, msgParse(pick(r, namePool), "t/P//ok/"+genParamQueryN(r, 1+r.Intn(5)), nil))
		default:
			ms := genSessionMsgs(r, 1+r.Intn(3), genL, true)
			for j := range ms {
				if r.Intn(3) == 0 {
					ms[j] = mutate(r, ms[j])
				}
			}
			msgs = append(msgs, ms...)
		}
	}
	in = append(in, flatten(msgs)...)
	c.In = in
	c.Cuts = randCuts(r, len(in))
	switch r.Intn(6) {
	case 0, 1:
		c.RF = true
		c.In = in[:r.Intn(len(in)+1)]
		if r.Intn(2) == 0 {
			c.Extra["rto"] = "1" // the read fault is an expired deadline (net.Error, Timeout() == true)
		}
	case 2, 3:
		c.EOF = true
		c.In = in[:r.Intn(len(in)+1)]
	case 4:
		c.WF = r.Intn(24)
	}
	if c.RF || c.EOF {
		c.Cuts = randCuts(r, len(c.In))
	}
	if r.Intn(4) == 0 {
		c.Extra["by"] = "1"
	}
	c.Extra["fin"] = "1"
	return c
}

func init() { generators["hostile"] = genHostile }

// genAlloc: one message announcing far more than the limit — in the startup packet, the password
// message, a command, a CopyData in copy-in mode, inside Bind (counts and value lengths), inside a
// binary COPY stream (field lengths, extension area) or as a `$n` placeholder — followed by a few
// body bytes and the end of the input. TotalAlloc is measured around serving the connection.
func genAlloc(r *rand.Rand, id string) *Case {
	c := baseCase(id, "alloc")
	c.L = []int{512, 4096, 8192, 65536}[r.Intn(4)]
	huge := []uint32{1 << 24, 1 << 26, 1 << 28, 0x7fffffff, 0x80000000, 0xfffffff0}[r.Intn(6)]
	tail := randBytes(r, r.Intn(40), false)
	var in []byte
	st := plainStartup("u")
	switch r.Intn(9) {
	case 0: // startup packet itself
		in = append(be32(huge), st[4:]...)
		in = append(in, tail...)
	case 1: // password message
		c.Auth = true
		in = append(st, typedLen('p', huge, tail)...)
	case 2: // CopyData in copy-in mode (text reader)
		in = append(st, msgQuery("t//g:0;k;k;c:"+hxs("COPY")+"/ok")...)
		in = append(in, typedLen('d', huge, tail)...)
	case 3: // Bind: maximal counts, every value length huge
		body := append(cstr(""), cstr("")...)
		body = append(body, be16(0)...)
		body = append(body, be16(65535)...)
		for i := 0; i < 1+r.Intn(4); i++ {
			body = append(body, be32(huge)...)
		}
		in = append(st, msgParse("", "t///ok", nil)...)
		in = append(in, typed('B', append(body, tail...))...)
		in = append(in, msgSync()...)
	case 4: // Bind: 65535 format codes announced, none sent
		body := append(cstr(""), cstr("")...)
		body = append(body, be16(65535)...)
		in = append(st, typed('B', append(body, tail...))...)
	case 5: // binary COPY: a field announcing a huge length / a huge extension area
		in = append(st, msgQuery("t,t//g:1;B;b;b;c:"+hxs("COPY")+"/ok")...)
		stream := []byte("PGCOPY\n\377\r\n\000")
		stream = append(stream, be32(0)...)
		if r.Intn(2) == 0 {
			stream = append(stream, be32(huge)...)
		} else {
			stream = append(stream, be32(0)...)
			stream = append(stream, be16(2)...)
			stream = append(stream, be32(huge)...)
		}
		in = append(in, msgCopyData(append(stream, tail...))...)
		in = append(in, msgCopyDone()...)
	case 6: // Parse announcing 65535 parameter types
		body := append(cstr(""), cstr("t///ok")...)
		body = append(body, be16(65535)...)
		in = append(st, typed('P', append(body, tail...))...)
	case 7: // a placeholder with a huge index
		in = append(st, msgParse("", "t/P//ok/ $"+strconv.FormatUint(uint64(huge), 10)+" $65535 $99999999999999999999", nil)...)
		in = append(in, msgDescribe('S', "")...)
		in = append(in, msgSync()...)
	default: // any command type
		t := []byte("QPBDESHCXdcfz")[r.Intn(13)]
		in = append(st, typedLen(t, huge, tail)...)
	}
	c.In = in
	c.EOF = true
	c.Extra["alloc"] = "1"
	c.Extra["fin"] = "1"
	return c
}

func init() { generators["alloc"] = genAlloc }

// ---- C11: TLS upgrade ------------------------------------------------------------------------

var sslRequestPacket = startup(80877103, nil, false)

// genTLS: certificates configured; the client sends an SSLRequest — alone, with plaintext stuffed
// behind it in the same segment, or with plaintext arriving later instead of a ClientHello —
// performs a real TLS handshake and runs a session (any kind: auth, simple/extended query, COPY,
// CancelRequest, a second SSLRequest, truncated input) inside it.
func genTLS(r *rand.Rand, id string) *Case {
	c := baseCase(id, "tls")
	c.TLS = 2
	c.Extra["tlsrun"] = "1"
	if r.Intn(2) == 0 {
		c.Extra["tlsver"] = "12"
	}
	limits := []int{0, 0, 64, 256, 4096}
	c.L = limits[r.Intn(len(limits))]
	genL := c.L
	if genL <= 0 || genL > 300 {
		genL = 300
	}
	// the session that runs inside TLS
	var tin []byte
	user := pick(r, []string{"alice", "bob", ""})
	tin = append(tin, startup(196608, [][2]string{{"user", user}}, true)...)
	if r.Intn(4) == 0 {
		c.Auth = true
		tin = append(tin, msgPassword(pick(r, []string{"ok", "okay", "bad", "fail"}))...)
	}
	if r.Intn(4) == 0 {
		c.MW = pick(r, []string{"o", "oo", "of"})
	}
	c.Term = r.Intn(3)
	if r.Intn(4) == 0 {
		c.Ver = []byte("14.2")
	}
	tin = append(tin, flatten(genSessionMsgs(r, r.Intn(10), genL, true))...)
	stuffing := append(startup(196608, [][2]string{{"user", "mallory"}}, true), msgQuery("t//r:t6869;c:"+hxs("SELECT 1")+"/ok/mallory")...)
	// what arrives together with the SSLRequest is dropped with the plaintext reader's buffer;
	// the buffer holds max(limit, 16) bytes (65536 by default)
	room := 65536
	if c.L > 0 {
		room = c.L
	}
	room -= len(sslRequestPacket)
	if r.Intn(2) == 0 || len(stuffing) > room {
		n := 1 + r.Intn(40)
		if n > room {
			n = room
		}
		stuffing = randBytes(r, n, false)
	}
	c.In = append([]byte(nil), sslRequestPacket...)
	switch k := r.Intn(16); {
	case k < 7:
	case k < 10: // stuffed plaintext in the same segment as the SSLRequest
		c.In = append(c.In, stuffing...)
	case k < 11: // plaintext instead of a ClientHello, arriving after the 'S'
		c.In = append(c.In, stuffing...)
		c.Cuts = []int{len(sslRequestPacket)}
		c.Extra["nohs"] = "1"
		tin = nil
	case k < 12: // CancelRequest inside TLS
		tin = append(be32(16), be32(80877102)...)
		tin = append(tin, be32(uint32(r.Intn(4000000)))...) // process id
		tin = append(tin, randBytes(r, 4, false)...)        // secret key
		tin = append(tin, randBytes(r, r.Intn(6), false)...)
	case k < 13 && c.L > 0 && !c.Auth && c.MW == "": // the configured limit applies inside TLS exactly as outside (C10)
		tin = startup(196608, [][2]string{{"user", user}}, true)
		tin = append(tin, msgQuery(probeQuery("FITS", c.L))...)
		tin = append(tin, msgQuery(probeQuery("BIG", c.L+1))...)
		tin = append(tin, msgQuery(probeQuery("AFTER", 0))...)
		c.Extra["xp"] = strings.Join([]string{xpC("FITS"), "Z", "E54000:ERROR", "Z", xpC("AFTER"), "Z"}, ",")
	case k < 13: // a second SSLRequest inside TLS
		tin = append(append([]byte(nil), sslRequestPacket...), tin...)
	case k < 14: // the SSLRequest arrives byte by byte
		for i := 1; i < len(sslRequestPacket); i++ {
			c.Cuts = append(c.Cuts, i)
		}
	case k < 15: // truncated session, client closes its side of the TLS session
		tin = tin[:r.Intn(len(tin)+1)]
		c.EOF = true
	default: // nothing inside TLS at all
		tin = nil
	}
	c.TIn = tin
	if r.Intn(10) == 0 && !c.EOF {
		c.EOF = true
	}
	if r.Intn(8) == 0 && c.Extra["nohs"] != "1" {
		// no certificates (no TLS configuration at all, or an empty one): 'N', and the same
		// connection goes on in plaintext with a fresh startup packet
		c.TLS = r.Intn(2)
		delete(c.Extra, "tlsrun")
		delete(c.Extra, "tlsver")
		c.In = append(append([]byte(nil), sslRequestPacket...), tin...)
		c.TIn = nil
		c.Cuts = randCuts(r, len(c.In))
	}
	return c
}

func init() { generators["tls"] = genTLS }
