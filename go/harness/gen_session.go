package main

import (
	"math/rand"
	"strconv"
	"strings"
)

// two of the names are 70 bytes long and share their first 63 bytes (NAMEDATALEN-1): names are arbitrary strings
var longNameA = "n123456789012345678901234567890123456789012345678901234567890xy-first"
var longNameB = "n123456789012345678901234567890123456789012345678901234567890xy-other"
var namePool = []string{"", "a", "b", "a", "b", "", longNameA, longNameB}

// randOids: the parameter data types a Parse message may prespecify (ignored by the library: the types a
// statement declares are what Describe announces)
func randOids(r *rand.Rand, nparams int) []uint32 {
	if r.Intn(2) == 0 {
		return nil
	}
	k := r.Intn(nparams + 2)
	oids := make([]uint32, k)
	for i := range oids {
		oids[i] = []uint32{0, 23, 25, 20, 16, 1043, 17}[r.Intn(7)]
	}
	return oids
}

func pick(r *rand.Rand, xs []string) string { return xs[r.Intn(len(xs))] }

// genBindParams builds random Bind parameters.
func genBindParams(r *rand.Rand) ([]uint16, []bindParam) {
	n := r.Intn(4)
	params := make([]bindParam, n)
	for i := range params {
		switch r.Intn(6) {
		case 0:
			params[i].null = true
		case 1:
			params[i].v = []byte{}
		case 2:
			params[i].v = []byte(strconv.Itoa(r.Intn(100000) - 50000))
		case 3:
			params[i].v = be32(r.Uint32())
		default:
			params[i].v = randBytes(r, r.Intn(8), false)
		}
	}
	var pf []uint16
	switch r.Intn(4) {
	case 0:
	case 1:
		pf = []uint16{uint16(r.Intn(2))}
	case 2:
		pf = make([]uint16, n)
		for i := range pf {
			pf[i] = uint16(r.Intn(2))
		}
	case 3:
		pf = make([]uint16, r.Intn(5))
		for i := range pf {
			pf[i] = uint16(r.Intn(2))
		}
	}
	return pf, params
}

func genResultFormats(r *rand.Rand) []uint16 {
	switch r.Intn(5) {
	case 0:
		return nil
	case 1:
		return []uint16{uint16(r.Intn(2))}
	case 2:
		f := make([]uint16, r.Intn(5))
		for i := range f {
			f[i] = uint16(r.Intn(2))
		}
		return f
	case 3:
		return []uint16{1, 1, 1, 1}
	}
	return []uint16{uint16(r.Intn(3))}
}

// genSessionMsgs produces a list of post-startup client messages.
func genSessionMsgs(r *rand.Rand, n int, L int, allowCopy bool) [][]byte {
	var msgs [][]byte
	for i := 0; i < n; i++ {
		switch k := r.Intn(40); {
		case k < 8:
			msgs = append(msgs, msgQuery(genQueryText(r, allowCopy)))
		case k < 14:
			q := genStmtScript(r, allowCopy, 5)
			if r.Intn(8) == 0 {
				q = genQueryText(r, allowCopy)
			}
			var oids []uint32
			for j := 0; j < r.Intn(3); j++ {
				oids = append(oids, uint32(r.Intn(3000)))
			}
			msgs = append(msgs, msgParse(pick(r, namePool), q, oids))
		case k < 19:
			pf, ps := genBindParams(r)
			msgs = append(msgs, msgBind(pick(r, namePool), pick(r, namePool), pf, ps, genResultFormats(r)))
		case k < 22:
			kind := byte('S')
			if r.Intn(2) == 0 {
				kind = 'P'
			}
			if r.Intn(12) == 0 {
				// unknown kinds; NUL often: it must not end up raw inside the ErrorResponse text
				kind = []byte{0, 0, 'x', 0xff, byte(r.Intn(256))}[r.Intn(5)]
			}
			msgs = append(msgs, msgDescribe(kind, pick(r, namePool)))
		case k < 26:
			msgs = append(msgs, msgExecute(pick(r, namePool), uint32(r.Intn(3))))
		case k < 31:
			msgs = append(msgs, msgSync())
		case k < 32:
			msgs = append(msgs, msgFlush())
		case k < 34:
			kind := byte('S')
			if r.Intn(2) == 0 {
				kind = 'P'
			}
			if r.Intn(10) == 0 {
				kind = []byte{0, 0, 'x', 0xff, byte(r.Intn(256))}[r.Intn(5)]
			}
			msgs = append(msgs, msgClose(kind, pick(r, namePool)))
		case k < 35:
			switch r.Intn(3) {
			case 0:
				msgs = append(msgs, msgCopyData(randBytes(r, r.Intn(10), false)))
			case 1:
				msgs = append(msgs, msgCopyDone())
			case 2:
				msgs = append(msgs, msgCopyFail("nah"))
			}
		case k < 36:
			msgs = append(msgs, typed(byte(r.Intn(256)), randBytes(r, r.Intn(6), false)))
		case k < 37:
			// oversized message (fully sent) of a random type
			t := []byte("QPBDESHCXdcfz")[r.Intn(13)]
			msgs = append(msgs, typed(t, randBytes(r, L+1+r.Intn(2*L+3), false)))
		case k < 38:
			// sub-minimum declared length
			msgs = append(msgs, typedLen([]byte("QPSX")[r.Intn(4)], uint32(r.Intn(4)), nil))
		case k < 39:
			// truncated / surplus-carrying body
			m := msgQuery(genQueryText(r, false))
			m = append(m[:len(m):len(m)], randBytes(r, 1+r.Intn(4), false)...)
			copy(m[1:5], be32(uint32(len(m)-1)))
			msgs = append(msgs, m)
		default:
			msgs = append(msgs, msgTerminate())
		}
	}
	return msgs
}

func flatten(msgs [][]byte) []byte {
	var out []byte
	for _, m := range msgs {
		out = append(out, m...)
	}
	return out
}

func randCuts(r *rand.Rand, n int) []int {
	switch r.Intn(4) {
	case 0:
		return nil
	case 1:
		cuts := make([]int, 0, n)
		for i := 1; i < n; i++ {
			cuts = append(cuts, i)
		}
		return cuts
	}
	var cuts []int
	for i := 1; i < n; i++ {
		if r.Intn(7) == 0 {
			cuts = append(cuts, i)
		}
	}
	return cuts
}

// genSession: the broad campaign used to tie the whole model to the code.
func genSession(r *rand.Rand, id string) *Case {
	c := &Case{ID: id, Camp: "session", WF: -1, GPNil: true, Extra: map[string]string{}}
	limits := []int{0, 0, 64, 256, 4096, 100}
	c.L = limits[r.Intn(len(limits))]
	effL := c.L
	if effL <= 0 {
		effL = 1 << 24
	}
	genL := effL
	if genL > 300 {
		genL = 300 // keep generated oversized messages small unless the limit is small
	}
	var in []byte
	user := pick(r, []string{"alice", "bob", "", "u ser"})
	kv := [][2]string{{"user", user}}
	if r.Intn(2) == 0 {
		kv = append(kv, [2]string{"database", pick(r, []string{"db", "", "postgres"})})
	}
	if r.Intn(4) == 0 {
		kv = append(kv, [2]string{"user", "dup"})
	}
	if r.Intn(3) == 0 {
		c.TLS = 1
	}
	if r.Intn(6) == 0 {
		in = append(in, startup(80877103, nil, false)...) // SSLRequest (answered 'N')
	}
	if c.TLS == 0 && r.Intn(12) == 0 {
		// encryption requests repeated or combined in front of the start-up packet (SSLRequest, GSSENCRequest):
		// whatever the server makes of them, its output stays a valid backend stream
		seqs := [][]uint32{{80877103, 80877103}, {80877103, 80877103, 80877103}, {80877104}, {80877104, 80877103},
			{80877103, 80877104}, {80877104, 80877104}}
		in = in[:0]
		for _, v := range seqs[r.Intn(len(seqs))] {
			in = append(in, startup(v, nil, false)...)
		}
	}
	in = append(in, startup(196608, kv, r.Intn(20) != 0)...)
	if r.Intn(4) == 0 {
		c.Auth = true
		in = append(in, msgPassword(pick(r, []string{"ok", "okay", "bad", "fail", ""}))...)
	}
	if r.Intn(3) == 0 {
		c.MW = pick(r, []string{"o", "oo", "of", "f", "ooo", "no", "ono"})
	}
	c.Term = r.Intn(3)
	if r.Intn(3) == 0 {
		c.Ver = []byte(pick(r, []string{"14.2", "verif"}))
	}
	if r.Intn(3) == 0 {
		c.GPNil = false
		if r.Intn(2) == 0 {
			c.GP = append(c.GP, [2][]byte{[]byte("application_name"), []byte("x")})
		}
		if r.Intn(2) == 0 {
			c.GP = append(c.GP, [2][]byte{[]byte("server_encoding"), []byte("LATIN1")})
		}
	}
	if effL > 300 || true {
		msgs := genSessionMsgs(r, r.Intn(14), genL, true)
		if effL > 300 {
			// drop generated "oversized" messages that are not oversized for this limit: they are just big valid ones
		}
		in = append(in, flatten(msgs)...)
	}
	if r.Intn(10) == 0 && effL > 300 && !c.Auth {
		// an answer of well over 4 KiB with Terminate pipelined right behind the request
		rows := strings.Repeat("r:t"+hxs(strings.Repeat("0123456789", 20))+";", 25+r.Intn(20))
		in = append(in, msgQuery("t//"+rows+"c:"+hxs("BIG")+"/ok")...)
		in = append(in, msgTerminate()...)
	}
	c.In = in
	c.Cuts = randCuts(r, len(in))
	if r.Intn(12) == 0 {
		c.RF = true
		c.In = in[:r.Intn(len(in)+1)]
		if r.Intn(2) == 0 {
			c.Extra["rto"] = "1"
		}
	}
	if r.Intn(12) == 0 {
		c.WF = r.Intn(12)
	}
	if !c.RF && r.Intn(10) == 0 {
		// the client hangs up (half-close) after its last byte, possibly in the middle of a message
		c.EOF = true
		if r.Intn(2) == 0 {
			c.In = in[:r.Intn(len(in)+1)]
		}
	}
	return c
}
