package main

import (
	"math/rand"
	"strconv"
)

func baseCase(id, camp string) *Case {
	return &Case{ID: id, Camp: camp, WF: -1, GPNil: true, Extra: map[string]string{}}
}

func plainStartup(user string) []byte {
	return startup(196608, [][2]string{{"user", user}}, true)
}

// genErrors (C17): simple queries whose parser fails with a randomly decorated error:
// any subset, order and repetition of the decorators, fmt-style wrapping interposed,
// nesting depth up to 8 (quick) .. 16.
func genErrors(r *rand.Rand, id string) *Case {
	c := baseCase(id, "errors")
	in := plainStartup("u")
	n := 1 + r.Intn(3)
	for i := 0; i < n; i++ {
		depth := r.Intn(9)
		if r.Intn(8) == 0 {
			depth = 9 + r.Intn(8)
		}
		in = append(in, msgQuery("!"+genErrSpec(r, depth))...)
	}
	c.In = in
	c.Cuts = randCuts(r, len(in))
	return c
}

func init() {
	generators["errors"] = genErrors
}

var paramIndexes = []string{"0", "1", "2", "3", "5", "9", "10", "255", "256", "65534", "65535", "65536", "99999",
	"2147483648", "9223372036854775807", "9223372036854775808", "18446744073709551616", "123456789012345678901234567890", "007", "00"}

func genParamQuery(r *rand.Rand) string {
	var b []byte
	n := r.Intn(12)
	for i := 0; i < n; i++ {
		switch r.Intn(9) {
		case 0, 1:
			b = append(b, '$')
			b = append(b, paramIndexes[r.Intn(len(paramIndexes))]...)
		case 2:
			b = append(b, '$')
			b = append(b, []byte(strconv.Itoa(1+r.Intn(12)))...)
		case 3, 4:
			b = append(b, '?')
		case 5:
			b = append(b, []string{"$", "$$", "$a", "$ 1", "$-1", "??", "?1", "$1$2", "$?", "1$", "\xff$1", "é?", "$١"}[r.Intn(13)]...)
		default:
			b = append(b, []string{"select ", " from t where a = ", ", ", " and ", "x", " ", "'", "\n"}[r.Intn(8)]...)
		}
	}
	return string(b)
}

// genParams (C20): ParseParameters called directly on generated query strings.
func genParams(r *rand.Rand, id string) *Case {
	c := baseCase(id, "params")
	c.Extra["direct"] = "params"
	q := genParamQuery(r)
	switch r.Intn(6) {
	case 0: // only positional
		q = ""
		for i := 0; i < 1+r.Intn(6); i++ {
			q += " $" + paramIndexes[r.Intn(len(paramIndexes))]
		}
	case 1: // only anonymous
		q = ""
		for i := 0; i < r.Intn(9); i++ {
			q += "?,"
		}
	}
	c.In = []byte(q)
	return c
}

// genParamsDescribe (C20): the length reported by ParseParameters is what Describe announces.
func genParamsDescribe(r *rand.Rand, id string) *Case {
	c := baseCase(id, "paramsd")
	in := plainStartup("u")
	n := 1 + r.Intn(3)
	for i := 0; i < n; i++ {
		q := "/P//ok/" + genParamQuery(r)
		// keep '|' and NUL out of the free text (statement separator / string terminator)
		qb := []byte(q)
		for j := range qb {
			if qb[j] == '|' || qb[j] == 0 {
				qb[j] = ' '
			}
		}
		name := pick(r, namePool)
		in = append(in, msgParse(name, string(qb), nil)...)
		in = append(in, msgDescribe('S', name)...)
		if r.Intn(2) == 0 {
			in = append(in, msgSync()...)
		}
	}
	in = append(in, msgSync()...)
	c.In = in
	return c
}

func init() {
	generators["params"] = genParams
	generators["paramsd"] = genParamsDescribe
}
