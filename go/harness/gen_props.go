package main

import (
	"time"
	"bytes"
	"encoding/binary"
	"encoding/hex"
	"math/rand"
	"sort"
	"strconv"
	"strings"
)

func baseCase(id, camp string) *Case {
	return &Case{ID: id, Camp: camp, WF: -1, GPNil: true, Extra: map[string]string{}}
}

func plainStartup(user string) []byte {
	return startup(196608, [][2]string{{"user", user}}, true)
}

// genErrors (C17): simple queries whose parser fails with a randomly decorated error:
// any subset, order and repetition of the decorators, fmt-style wrapping interposed,
// nesting depth up to 8 (quick) .. 16.
func genErrors(r *rand.Rand, id string) *Case {
	c := baseCase(id, "errors")
	if r.Intn(60) == 0 {
		c.Extra["direct"] = "errnil" // ErrorCode(writer, nil)
		return c
	}
	in := plainStartup("u")
	n := 1 + r.Intn(3)
	for i := 0; i < n; i++ {
		depth := r.Intn(9)
		if r.Intn(8) == 0 {
			depth = 9 + r.Intn(8)
		}
		if r.Intn(5) == 0 {
			// a statement whose Row fails while a value is being encoded (the DataRow is abandoned) and which
			// then returns a decorated error: the error must arrive in its own, intact ErrorResponse
			in = append(in, msgQuery("t,i//r:t"+hxs("v")+",x;r:x,i1/E"+genErrSpec(r, depth))...)
			continue
		}
		in = append(in, msgQuery("!"+genErrSpec(r, depth))...)
	}
	c.In = in
	c.Cuts = randCuts(r, len(in))
	return c
}

func init() {
	generators["errors"] = genErrors
}

var paramIndexes = []string{"0", "1", "2", "3", "5", "9", "10", "255", "256", "65534", "65535", "65536", "99999",
	"2147483648", "9223372036854775807", "9223372036854775808", "18446744073709551616", "123456789012345678901234567890", "007", "00"}

func genParamQuery(r *rand.Rand) string { return genParamQueryN(r, len(paramIndexes)) }

// genParamQueryN draws positional indexes from the first k table entries only (the entries
// from 65534 on make ParameterDescription messages of 256 KiB).
func genParamQueryN(r *rand.Rand, k int) string {
	var b []byte
	n := r.Intn(12)
	for i := 0; i < n; i++ {
		switch r.Intn(9) {
		case 0, 1:
			b = append(b, '$')
			b = append(b, paramIndexes[r.Intn(k)]...)
		case 2:
			b = append(b, '$')
			b = append(b, []byte(strconv.Itoa(1+r.Intn(12)))...)
		case 3, 4:
			b = append(b, '?')
		case 5:
			b = append(b, []string{"$", "$$", "$a", "$ 1", "$-1", "??", "?1", "$1$2", "$?", "1$", "\xff$1", "é?", "$١"}[r.Intn(13)]...)
		default:
			b = append(b, []string{"select ", " from t where a = ", ", ", " and ", "x", " ", "'", "\n"}[r.Intn(8)]...)
		}
	}
	return string(b)
}

// genParams (C20): ParseParameters called directly on generated query strings.
func genParams(r *rand.Rand, id string) *Case {
	c := baseCase(id, "params")
	c.Extra["direct"] = "params"
	q := genParamQuery(r)
	switch r.Intn(6) {
	case 0: // only positional
		q = ""
		for i := 0; i < 1+r.Intn(6); i++ {
			q += " $" + paramIndexes[r.Intn(len(paramIndexes))]
		}
	case 1: // only anonymous
		q = ""
		for i := 0; i < r.Intn(9); i++ {
			q += "?,"
		}
	}
	if r.Intn(250) == 0 {
		// more than 65535 markers, the highest position first appears behind the 65535th
		k := []int{65534, 65535, 65536}[r.Intn(3)]
		q = strings.Repeat("$1 ", k) + pick(r, []string{"$2", "$3", "?"})
	}
	c.In = []byte(q)
	return c
}

// genParamsDescribe (C20): the length reported by ParseParameters is what Describe announces.
func genParamsDescribe(r *rand.Rand, id string) *Case {
	c := baseCase(id, "paramsd")
	in := plainStartup("u")
	n := 1 + r.Intn(3)
	for i := 0; i < n; i++ {
		k := 9
		if r.Intn(150) == 0 {
			k = len(paramIndexes)
		}
		q := "/P//ok/" + genParamQueryN(r, k)
		// keep '|' and NUL out of the free text (statement separator / string terminator)
		qb := []byte(q)
		for j := range qb {
			if qb[j] == '|' || qb[j] == 0 {
				qb[j] = ' '
			}
		}
		name := pick(r, namePool)
		in = append(in, msgParse(name, string(qb), randOids(r, 3))...)
		in = append(in, msgDescribe('S', name)...)
		if r.Intn(2) == 0 {
			in = append(in, msgSync()...)
		}
	}
	in = append(in, msgSync()...)
	c.In = in
	return c
}

func init() {
	generators["params"] = genParams
	generators["paramsd"] = genParamsDescribe
}

// ---- expectation notation (xp=): one token per backend message after the session's first ReadyForQuery

func xpC(tag string) string { return "C" + hxs(tag) }

// probeQuery returns a simple query that completes with the given tag, padded so that the
// Query message body (text + NUL) is exactly bodyLen bytes when bodyLen > 0.
func probeQuery(tag string, bodyLen int) string {
	q := "//c:" + hxs(tag) + "/ok"
	if bodyLen > 0 && len(q)+1 < bodyLen {
		q += "/"
		q += strings.Repeat("x", bodyLen-1-len(q))
	}
	return q
}

// genLimit (C10): configured limit L, declared lengths around it, every message type, every position.
func genLimit(r *rand.Rand, id string) *Case {
	c := baseCase(id, "limit")
	limits := []int{16, 32, 64, 100, 256, 4095, 4096, 4097, 8192}
	L := limits[r.Intn(len(limits))]
	c.L = L
	in := plainStartup("u")
	var xp []string
	if r.Intn(8) == 0 {
		// limits below 16 (the minimum size of a bufio.Reader): the start-up packet carries no parameters (its
		// body of 5 bytes fits), every message body in (L, 16] must still be refused
		L = 5 + r.Intn(11)
		c.L = L
		in = startup(196608, nil, true)
		n := 1 + r.Intn(4)
		for i := 0; i < n; i++ {
			sz := []int{L - 1, L, L + 1, L + 2, 16, 17, 2 * L}[r.Intn(7)]
			t := []byte("QPBDESHCdcf")[r.Intn(11)]
			if sz <= L {
				// a Sync-like body-less or short message the server can process: use Sync (empty body)
				in = append(in, msgSync()...)
				xp = append(xp, "Z")
				continue
			}
			in = append(in, typed(t, randBytes(r, sz, false))...)
			xp = append(xp, "E54000:ERROR")
			if t == 'Q' {
				xp = append(xp, "Z")
			}
		}
		in = append(in, msgSync()...)
		xp = append(xp, "Z")
		c.In = in
		c.Cuts = randCuts(r, len(in))
		c.Extra["xp"] = strings.Join(xp, ",")
		c.Extra["xend"] = "w"
		return c
	}
	n := 1 + r.Intn(5)
	seenOversize := false
	for i := 0; i < n; i++ {
		tag := "P" + strconv.Itoa(i)
		k := r.Intn(10)
		switch {
		case k < 4 || (i == n-1 && !seenOversize && k < 6):
			// oversized: declared body = L+1, L+2, 2L, 2L+1, 3L+7 (sent in full, so it must be skipped in full)
			sizes := []int{L + 1, L + 2, 2 * L, 2*L + 1, 3*L + 7}
			sz := sizes[r.Intn(len(sizes))]
			t := []byte("QPBDESHCXdcfpz\x00")[r.Intn(15)]
			body := randBytes(r, sz, false)
			// make the skipped body look like protocol messages (a resynchronisation bug would execute them)
			if sz >= 40 {
				copy(body, msgQuery(probeQuery("INJECTED", 0)))
			}
			in = append(in, typed(t, body)...)
			xp = append(xp, "E54000:ERROR")
			if t == 'Q' {
				xp = append(xp, "Z")
			}
			seenOversize = true
		case k < 5:
			// declared length below the 4-byte minimum: rejected, nothing read for it
			t := []byte("QPSD")[r.Intn(4)]
			in = append(in, typedLen(t, uint32(r.Intn(4)), nil)...)
			xp = append(xp, "E54000:ERROR")
			if t == 'Q' {
				xp = append(xp, "Z")
			}
		case k < 7:
			// body of exactly L (or L-1) bytes: processed normally
			bl := L - r.Intn(2)
			q := probeQuery(tag, bl)
			if len(q)+1 != bl { // limit too small for the script text: plain probe
				q = probeQuery(tag, 0)
				if len(q)+1 > L {
					xp = append(xp, "E54000:ERROR", "Z")
					in = append(in, msgQuery(q)...)
					continue
				}
			}
			in = append(in, msgQuery(q)...)
			xp = append(xp, xpC(tag), "Z")
		default:
			q := probeQuery(tag, 0)
			in = append(in, msgQuery(q)...)
			if len(q)+1 > L {
				xp = append(xp, "E54000:ERROR", "Z")
			} else {
				xp = append(xp, xpC(tag), "Z")
			}
		}
	}
	scen := r.Intn(6)
	if scen == 0 && L < 64 {
		scen = 1
	}
	switch scen {
	case 0:
		// inside a discarded batch: a failed Parse, then an oversized message (still skipped in
		// full and reported, but without ReadyForQuery even for a Query), then Sync
		in = append(in, msgParse("", "!C"+hxs("42601")+".B"+hxs("nope"), nil)...)
		xp = append(xp, "E42601:ERROR")
		sz := L + 1 + r.Intn(2*L)
		t := []byte("QPBDEHCdz")[r.Intn(9)]
		body := randBytes(r, sz, false)
		if sz >= 48 {
			copy(body, append(msgSync(), msgQuery(probeQuery("INJECTED", 0))...))
		}
		in = append(in, typed(t, body)...)
		xp = append(xp, "E54000:ERROR")
		in = append(in, msgSync()...)
		xp = append(xp, "Z")
		in = append(in, msgQuery(probeQuery("END", 0))...)
		if len(probeQuery("END", 0))+1 > L {
			xp = append(xp, "E54000:ERROR", "Z")
		} else {
			xp = append(xp, xpC("END"), "Z")
		}
	case 1:
		// a declared length far beyond the limit (up to 2^32-1) of which only a few bytes arrive:
		// the server keeps skipping; it neither answers yet nor interprets the partial body
		decl := []uint32{uint32(L) + 5 + uint32(r.Intn(100)), 0x7fffffff, 0x80000000, 0x80000004, 0xfffffffe, 0xffffffff, 0x01000005}[r.Intn(7)]
		part := randBytes(r, r.Intn(2*L), false)
		if int64(len(part))+4 >= int64(decl) {
			part = part[:0]
		}
		if len(part) >= 40 {
			copy(part, msgQuery(probeQuery("INJECTED", 0)))
		}
		in = append(in, typedLen([]byte("QPBSX")[r.Intn(5)], decl, part)...)
	}
	c.In = in
	c.Cuts = randCuts(r, len(in))
	c.Extra["xp"] = strings.Join(xp, ",")
	c.Extra["xend"] = "w"
	if r.Intn(12) == 0 {
		// a LARGE but admissible start-up packet (body of 10 001 .. L bytes for a limit well above 10 000, the
		// default included): it is within the limit, so the session is served normally
		c3 := baseCase(id, "limit")
		c3.L = []int{0, -1, 20000, 65536}[r.Intn(4)]
		eff := c3.L
		if eff <= 0 {
			eff = 1 << 24
		}
		sz := []int{10001, 12000, 19000, 30000}[r.Intn(4)]
		if sz+60 > eff {
			sz = eff - 60
		}
		c3.In = startup(196608, [][2]string{{"user", "u"}, {"options", strings.Repeat("o", sz)}}, true)
		c3.In = append(c3.In, msgQuery(probeQuery("BIGSTART", 0))...)
		c3.Extra["xp"] = xpC("BIGSTART") + ",Z"
		c3.Extra["xend"] = "w"
		return c3
	}
	if r.Intn(12) == 0 {
		// a message of more than 64 KiB within the (default) limit whose body stops short: the client then
		// half-closes. The message is incomplete: it is never handed to its handler
		c4 := baseCase(id, "limit")
		c4.L = 0
		decl := 66000 + r.Intn(9000)
		have := decl - 1 - r.Intn(5000)
		body := append(cstr(""), cstr(probeQuery("TRUNC", 0))...)
		body = append(body, 0, 0)
		for len(body) < have {
			body = append(body, 'x')
		}
		c4.In = append(plainStartup("u"), typedLen([]byte("PQ")[r.Intn(2)], uint32(decl+4), body)...)
		c4.EOF = true
		c4.Extra["xp"] = ""
		c4.Extra["xend"] = "c"
		return c4
	}
	if r.Intn(10) == 0 {
		// oversized message during startup / authentication: the connection ends, no reply
		c2 := baseCase(id, "limit")
		c2.L = L
		switch r.Intn(2) {
		case 0:
			c2.In = append(be32(uint32(L+5+r.Intn(3*L))), randBytes(r, 8, false)...)
			c2.Extra["xpre"] = ""
		case 1:
			c2.Auth = true
			c2.In = append(plainStartup("u"), typedLen('p', uint32(L+5+r.Intn(L)), []byte("ok\x00"))...)
			c2.Extra["xpre"] = "R3"
		}
		c2.Extra["xend"] = "c"
		return c2
	}
	return c
}

func init() { generators["limit"] = genLimit }

// genLimitBig (C10, thorough only): the 16 MiB default at its boundary.
func genLimitBig(r *rand.Rand, id string) *Case {
	c := baseCase(id, "limitbig")
	c.L = []int{0, -1}[r.Intn(2)]
	const D = 1 << 24
	in := plainStartup("u")
	var xp []string
	switch r.Intn(3) {
	case 0: // body of exactly 16 MiB: accepted
		in = append(in, msgQuery(probeQuery("BIG", D))...)
		xp = append(xp, xpC("BIG"), "Z")
	case 1: // 16 MiB + 1: skipped
		in = append(in, typed('Q', make([]byte, D+1))...)
		xp = append(xp, "E54000:ERROR", "Z")
	case 2: // 2 × 16 MiB + 3 of an extended message: skipped in chunks, no ReadyForQuery
		in = append(in, typed('P', make([]byte, 2*D+3))...)
		xp = append(xp, "E54000:ERROR")
	}
	in = append(in, msgQuery(probeQuery("AFTER", 0))...)
	xp = append(xp, xpC("AFTER"), "Z")
	c.In = in
	c.Extra["xp"] = strings.Join(xp, ",")
	c.Extra["xend"] = "w"
	return c
}

func init() { generators["limitbig"] = genLimitBig }

// idIndex extracts (seed, index) from a case id "<camp>-<seed>-<index>".
func idIndex(id string) (int64, int) {
	parts := strings.Split(id, "-")
	if len(parts) < 3 {
		return 0, 0
	}
	s, _ := strconv.ParseInt(parts[len(parts)-2], 10, 64)
	i, _ := strconv.Atoi(parts[len(parts)-1])
	return s, i
}

const segVariants = 5

// genSeg (C03): the same client byte stream under five segmentations (group = base index):
// all at once, one byte per read, dense irregular cuts (every header is split somewhere),
// random cuts, every third byte.
func genSeg(_ *rand.Rand, id string) *Case {
	seed, i := idIndex(id)
	base := i / segVariants
	r := rand.New(rand.NewSource(seed*7919 + int64(base)*31 + 17))
	c := genSession(r, id)
	c.Camp = "seg"
	c.RF, c.WF = false, -1
	c.Extra["grp"] = strconv.Itoa(base)
	n := len(c.In)
	var cuts []int
	switch i % segVariants {
	case 0:
	case 1:
		for k := 1; k < n; k++ {
			cuts = append(cuts, k)
		}
	case 2:
		for k := 1; k < n; k++ {
			if m := k % 7; m >= 1 && m <= 4 {
				cuts = append(cuts, k)
			}
		}
	case 3:
		r2 := rand.New(rand.NewSource(seed + int64(i)))
		for k := 1; k < n; k++ {
			if r2.Intn(5) == 0 {
				cuts = append(cuts, k)
			}
		}
	case 4:
		for k := 3; k < n; k += 3 {
			cuts = append(cuts, k)
		}
	}
	c.Cuts = cuts
	return c
}

// genAccessor (C03): buffer.Reader accessors called directly on a message body.
func genAccessor(r *rand.Rand, id string) *Case {
	c := baseCase(id, "accessor")
	c.Extra["direct"] = "accessor"
	n := r.Intn(24)
	body := make([]byte, n)
	for i := range body {
		switch r.Intn(4) {
		case 0:
			body[i] = 0
		default:
			body[i] = byte(r.Intn(256))
		}
	}
	c.In = body
	nops := r.Intn(10)
	ops := make([]string, nops)
	for i := range ops {
		switch r.Intn(5) {
		case 0:
			ops[i] = "s"
		case 1:
			ops[i] = "b" + strconv.Itoa(r.Intn(8))
		case 2:
			ops[i] = "u2"
		case 3:
			ops[i] = "u4"
		case 4:
			ops[i] = "b" + strconv.Itoa([]int{0, 1, n, n + 1, 1 << 20, 1 << 40}[r.Intn(6)])
		}
	}
	c.Extra["ops"] = strings.Join(ops, ",")
	return c
}

func init() {
	generators["seg"] = genSeg
	generators["accessor"] = genAccessor
}

// filler returns n bytes for an unread region: variant 0 zeros, 1 random non-zero, 2 text that
// looks like protocol strings.
func filler(r *rand.Rand, variant, n int) []byte {
	b := make([]byte, n)
	switch variant {
	case 0:
	case 1:
		for i := range b {
			b[i] = byte(1 + r.Intn(255))
		}
	default:
		src := []byte("a\x00b\x00\x00\x01\x00\x00\x00\x00\x00")
		for i := range b {
			b[i] = src[(i+variant)%len(src)]
		}
	}
	return b
}

const surplusVariants = 3

// genSurplus (C03): identical message sequences that differ only in bytes no handler reads
// (Parse parameter OIDs, bytes after the last field of a message). Every variant of a group
// must produce the identical result; empty-bodied messages of field-reading types follow the
// filler-carrying ones so that a leak changes the outcome.
func genSurplus(_ *rand.Rand, id string) *Case {
	seed, i := idIndex(id)
	base := i / surplusVariants
	variant := i % surplusVariants
	r := rand.New(rand.NewSource(seed*104729 + int64(base)*13 + 5)) // structure: same for the group
	c := baseCase(id, "surplus")
	c.Extra["grp"] = strconv.Itoa(base)
	in := plainStartup("u")
	n := 1 + r.Intn(6)
	withFill := func(m []byte, k int) []byte {
		// append k filler bytes to a complete message and fix its length
		fr := rand.New(rand.NewSource(seed + int64(i)*977 + int64(len(in))))
		m = append(m[:len(m):len(m)], filler(fr, variant, k)...)
		copy(m[1:5], be32(uint32(len(m)-1)))
		return m
	}
	for j := 0; j < n; j++ {
		k := r.Intn(9)
		name := pick(r, namePool)
		var m []byte
		switch r.Intn(7) {
		case 0:
			m = withFill(msgQuery(probeQuery("Q"+strconv.Itoa(j), 0)), k)
		case 1:
			// Parse: the parameter OIDs are announced but never read
			noids := r.Intn(3)
			body := append(cstr(name), cstr("t/25/r:t61;c:"+hxs("X")+"/ok")...)
			body = append(body, be16(uint16(noids))...)
			fr := rand.New(rand.NewSource(seed + int64(i)*31 + int64(j)))
			body = append(body, filler(fr, variant, 4*noids+k)...)
			m = typed('P', body)
		case 2:
			m = withFill(msgBind(name, name, nil, nil, nil), k)
		case 3:
			m = withFill(msgDescribe([]byte("SP")[r.Intn(2)], name), k)
		case 4:
			m = withFill(msgExecute(name, 0), k)
		case 5:
			m = withFill(msgClose([]byte("SP")[r.Intn(2)], name), k)
		case 6:
			m = withFill(msgSync(), k)
		}
		in = append(in, m...)
		if r.Intn(3) == 0 {
			// an empty-bodied message of a type whose handler reads fields
			in = append(in, typed([]byte("EBDPCQ")[r.Intn(6)], nil)...)
		}
	}
	in = append(in, msgSync()...)
	c.In = in
	return c
}

func init() { generators["surplus"] = genSurplus }

// genBind (C08): Parse / Bind / Describe / Execute with generated parameter values, parameter
// format codes and result format codes. Expectations (computed here from how the message
// was built, independently of the library and of the Lean model):
//
//	xx  = the parameters the statement function must see (format.hexvalue | format.~ for NULL)
//	xtf = the format codes Describe(portal) must announce, xd = the fields of the DataRow,
//	xt  = the parameter OIDs Describe(statement) must announce, xn = decoded scans.
func genBind(r *rand.Rand, id string) *Case {
	c := baseCase(id, "bind")
	in := plainStartup("u")
	// columns: int4 and text only (their encodings are trivial to predict here)
	ncols := r.Intn(6)
	colLetters := make([]byte, ncols)
	vals := make([]string, ncols)
	ivals := make([]int32, ncols)
	svals := make([][]byte, ncols)
	colspec := make([]string, ncols)
	for i := range colLetters {
		if r.Intn(2) == 0 {
			colLetters[i] = 'i'
			ivals[i] = int32(r.Uint32())
			vals[i] = "i" + strconv.FormatInt(int64(ivals[i]), 10)
		} else {
			colLetters[i] = 't'
			svals[i] = randBytes(r, r.Intn(5), false)
			vals[i] = "t" + hex.EncodeToString(svals[i])
		}
		colspec[i] = string(colLetters[i])
	}
	// declared parameter OIDs
	nOids := r.Intn(4)
	oids := make([]string, nOids)
	for i := range oids {
		oids[i] = strconv.Itoa([]int{0, 23, 25, 16, 20, 1043, 17}[r.Intn(7)])
	}
	// parameters
	np := r.Intn(5)
	if r.Intn(40) == 0 {
		np = 200 + r.Intn(100)
	}
	params := make([]bindParam, np)
	kinds := make([]int, np) // 0 raw, 1 int4 text, 2 int4 binary, 3 text
	pints := make([]int32, np)
	for i := range params {
		switch r.Intn(7) {
		case 0:
			params[i].null = true
		case 1:
			params[i].v = []byte{}
		case 2:
			params[i].v = []byte{0}
		case 3:
			pints[i] = int32(r.Uint32())
			params[i].v = []byte(strconv.FormatInt(int64(pints[i]), 10))
			kinds[i] = 1
		case 4:
			pints[i] = int32(r.Uint32())
			params[i].v = be32(uint32(pints[i]))
			kinds[i] = 2
		default:
			params[i].v = randBytes(r, r.Intn(12), false)
			kinds[i] = 3
		}
	}
	var pf []uint16
	switch r.Intn(3) {
	case 0:
	case 1:
		pf = []uint16{uint16(r.Intn(2))}
	case 2:
		pf = make([]uint16, np)
		for i := range pf {
			pf[i] = uint16(r.Intn(2))
		}
	}
	pfmt := func(i int) uint16 {
		switch len(pf) {
		case 0:
			return 0
		case 1:
			return pf[0]
		}
		return pf[i]
	}
	var rf []uint16
	switch r.Intn(3) {
	case 0:
	case 1:
		rf = []uint16{uint16(r.Intn(2))}
	case 2:
		rf = make([]uint16, ncols)
		for i := range rf {
			rf[i] = uint16(r.Intn(2))
		}
	}
	if ncols >= 3 && r.Intn(5) == 0 {
		// a count that is neither 0, 1 nor the number of columns: not sanctioned by the protocol, but
		// the server must neither crash nor disagree with itself (positional, the first code beyond)
		rf = make([]uint16, 2+r.Intn(ncols-2))
		for i := range rf {
			rf[i] = uint16(r.Intn(2))
		}
	}
	rfmt := func(i int) uint16 {
		switch {
		case len(rf) == 0:
			return 0
		case len(rf) > i:
			return rf[i]
		}
		return rf[0]
	}
	// scans: decode parameter k as int4 (23) or text (25) through the parameter's own decoder
	var ops, xn []string
	for k := 0; k < np && k < 4; k++ {
		if params[k].null {
			ops = append(ops, "s:25,"+strconv.Itoa(k))
			xn = append(xn, hxs("s=n"))
			continue
		}
		switch {
		case kinds[k] == 1 && pfmt(k) == 0, kinds[k] == 2 && pfmt(k) == 1:
			ops = append(ops, "s:23,"+strconv.Itoa(k))
			xn = append(xn, hxs("s=i"+strconv.FormatInt(int64(pints[k]), 10)))
		default:
			ops = append(ops, "s:25,"+strconv.Itoa(k))
			xn = append(xn, hxs("s=t"+hex.EncodeToString(params[k].v)))
		}
	}
	ops = append(ops, "r:"+strings.Join(vals, ","), "c:"+hxs("OK"))
	script := strings.Join(colspec, ",") + "/" + strings.Join(oids, ",") + "/" + strings.Join(ops, ";") + "/ok"
	sname, pname := pick(r, namePool), pick(r, namePool)
	in = append(in, msgParse(sname, script, randOids(r, len(oids)))...)
	in = append(in, msgDescribe('S', sname)...)
	if r.Intn(2) == 0 {
		// an earlier Bind of the same portal name (other parameters, other result formats): the
		// later Bind replaces it completely
		drf := make([]uint16, ncols)
		for i := range drf {
			drf[i] = uint16(1 - int(rfmt(i)))
		}
		dps := []bindParam{{v: []byte("decoy")}, {null: true}, {v: []byte{1, 2, 3}}}
		in = append(in, msgBind(pname, sname, []uint16{1}, dps[:r.Intn(4)], drf)...)
	}
	in = append(in, msgBind(pname, sname, pf, params, rf)...)
	in = append(in, msgDescribe('P', pname)...)
	in = append(in, msgExecute(pname, 0)...)
	in = append(in, msgSync()...)
	if r.Intn(3) == 0 {
		// the same portal executed again, behind the Sync or (unnamed portals do not survive a Sync in
		// PostgreSQL, here they do) in a batch of its own: same parameters, same formats
		in = append(in, msgExecute(pname, 0)...)
		if r.Intn(2) == 0 {
			in = append(in, msgExecute(pname, 0)...)
		}
		in = append(in, msgSync()...)
	}
	c.In = in
	c.Cuts = randCuts(r, len(in))
	// expectations
	xx := make([]string, np)
	for i, p := range params {
		if p.null {
			xx[i] = strconv.Itoa(int(pfmt(i))) + ".~"
		} else {
			xx[i] = strconv.Itoa(int(pfmt(i))) + "." + hex.EncodeToString(p.v)
		}
	}
	c.Extra["xx"] = "=" + strings.Join(xx, ",")
	c.Extra["xt"] = "=" + strings.Join(oids, ",")
	if ncols > 0 {
		tf := make([]string, ncols)
		xd := make([]string, ncols)
		for i := 0; i < ncols; i++ {
			tf[i] = strconv.Itoa(int(rfmt(i)))
			switch {
			case colLetters[i] == 'i' && rfmt(i) == 0:
				xd[i] = hex.EncodeToString([]byte(strconv.FormatInt(int64(ivals[i]), 10)))
			case colLetters[i] == 'i':
				xd[i] = hex.EncodeToString(be32(uint32(ivals[i])))
			default:
				xd[i] = hex.EncodeToString(svals[i])
			}
		}
		c.Extra["xtf"] = "=" + strings.Join(tf, ",")
		c.Extra["xd"] = "=" + strings.Join(xd, ",")
	}
	c.Extra["xn"] = "=" + strings.Join(xn, ",")
	return c
}

func init() { generators["bind"] = genBind }

// genSimple (C05): simple queries only; 0, 1 or many statements; result-writer programs mixing
// good rows, wrong-arity and unencodable rows, Empty, Complete, calls after completion,
// Written probes and error returns; blank queries (ASCII and Unicode spaces).
func genSimple(r *rand.Rand, id string) *Case {
	c := baseCase(id, "simple")
	in := plainStartup("u")
	n := 1 + r.Intn(4)
	for i := 0; i < n; i++ {
		switch k := r.Intn(20); {
		case k == 0:
			blanks := []string{"", " ", "\t\n\v\f\r ", " ", " 　", "   ", "\u0085", "    ", " \xc2", "\xa0", "​", " x "}
			in = append(in, msgQuery(blanks[r.Intn(len(blanks))])...)
		case k == 1:
			in = append(in, msgQuery("#")...)
		case k == 2:
			in = append(in, msgQuery("!"+genErrSpec(r, r.Intn(3)))...)
		default:
			ns := 1
			if r.Intn(3) == 0 {
				ns = 2 + r.Intn(3)
			}
			parts := make([]string, ns)
			for j := range parts {
				parts[j] = genWriterScript(r, 12)
			}
			in = append(in, msgQuery(strings.Join(parts, "|"))...)
		}
	}
	c.In = in
	c.Cuts = randCuts(r, len(in))
	return c
}

// genWriterScript: a statement exercising the result writer state machine.
func genWriterScript(r *rand.Rand, maxOps int) string {
	cols, colspec := genCols(r, 3)
	nops := r.Intn(maxOps + 1)
	var ops []string
	for i := 0; i < nops; i++ {
		var o string
		switch k := r.Intn(20); {
		case k < 9:
			o = genRow(r, cols)
		case k < 12:
			o = "c:" + hxs([]string{"SELECT 1", "OK", "", "INSERT 0 2"}[r.Intn(4)])
		case k < 14:
			o = "e"
		default:
			o = "w"
		}
		if r.Intn(4) == 0 && o != "w" {
			o += "?"
		}
		ops = append(ops, o)
	}
	ret := "ok"
	if r.Intn(6) == 0 {
		ret = "E" + genErrSpec(r, r.Intn(3))
	}
	return colspec + "//" + strings.Join(ops, ";") + "/" + ret
}

func init() { generators["simple"] = genSimple }

// msgCuts returns the cut list that delivers each message in its own segment.
func msgCuts(msgs [][]byte) []int {
	var cuts []int
	off := 0
	for _, m := range msgs {
		off += len(m)
		cuts = append(cuts, off)
	}
	return cuts
}

// genExtScript: a single-statement script for extended-protocol histories.
func genExtScript(r *rand.Rand) string {
	switch r.Intn(12) {
	case 0:
		return "!" + genErrSpec(r, r.Intn(2))
	case 1:
		return "#"
	case 2:
		return "//c:" + hxs("A") + "/ok|//c:" + hxs("B") + "/ok"
	case 3:
		return "garbage"
	}
	cols, colspec := genCols(r, 2)
	var ops []string
	for i := 0; i < r.Intn(3); i++ {
		ops = append(ops, genRow(r, cols)+"?")
	}
	if r.Intn(4) != 0 {
		ops = append(ops, "c:"+hxs("OK"))
	}
	ret := "ok"
	if r.Intn(7) == 0 {
		ret = "E" + genErrSpec(r, 1)
	}
	return colspec + "/" + []string{"", "23", "P"}[r.Intn(3)] + "/" + strings.Join(ops, ";") + "/" + ret
}

// genExt (C06): histories of Parse/Bind/Describe/Execute/Close/Flush/Sync over a small name
// pool, interleaved with simple queries, oversized and unknown messages; every message is
// delivered in its own segment so that replies are attributed to the message that caused them.
func genExt(r *rand.Rand, id string) *Case {
	c := baseCase(id, "ext")
	c.Extra["evat"] = "1"
	c.L = []int{0, 512}[r.Intn(2)]
	msgs := [][]byte{plainStartup("u")}
	n := 2 + r.Intn(22)
	longTexts := r.Intn(3) == 0 // histories that cross the reader's 4 KiB granules several times
	for i := 0; i < n; i++ {
		name := pick(r, namePool)
		switch k := r.Intn(40); {
		case k < 8:
			sc := genExtScript(r)
			if longTexts {
				sc += "/" + strings.Repeat("filler ", 120+r.Intn(120))
			}
			msgs = append(msgs, msgParse(name, sc, randOids(r, 2)))
		case k < 14:
			msgs = append(msgs, msgBind(name, pick(r, namePool), nil, nil, genResultFormats(r)))
		case k < 18:
			kind := []byte("SP")[r.Intn(2)]
			if r.Intn(15) == 0 {
				kind = byte(r.Intn(256))
			}
			msgs = append(msgs, msgDescribe(kind, name))
		case k < 24:
			msgs = append(msgs, msgExecute(name, 0))
		case k < 31:
			msgs = append(msgs, msgSync())
		case k < 33:
			msgs = append(msgs, msgFlush())
		case k < 36:
			kind := []byte("SP")[r.Intn(2)]
			if r.Intn(15) == 0 {
				kind = byte(r.Intn(256))
			}
			msgs = append(msgs, msgClose(kind, name))
		case k < 38:
			msgs = append(msgs, msgQuery(genWriterScript(r, 3)))
		case k < 39:
			if c.L > 0 {
				msgs = append(msgs, typed([]byte("QPBDESHC")[r.Intn(8)], randBytes(r, c.L+1+r.Intn(40), false)))
			} else {
				msgs = append(msgs, typed([]byte("zZ?0")[r.Intn(4)], nil))
			}
		default:
			msgs = append(msgs, []([]byte){msgCopyData([]byte("x")), msgCopyDone(), msgCopyFail("f")}[r.Intn(3)])
		}
	}
	if r.Intn(3) != 0 {
		msgs = append(msgs, msgSync())
	}
	c.In = flatten(msgs)
	c.Cuts = msgCuts(msgs)
	return c
}

func init() { generators["ext"] = genExt }

// genNames (C07): histories of Parse/Bind/Describe/Execute/Close over a small pool of names
// (the empty name included). Every message is followed by Sync, so an error never hides later
// messages. The generator keeps its own abstract name maps (NameSpec) and attaches what must
// happen: xev = the statement executions (query text of the statement the portal was bound to,
// with that Bind's parameters), xp = the reply notation.
func genNames(r *rand.Rand, id string) *Case {
	c := baseCase(id, "names")
	type stmtDef struct {
		query  string
		ncols  int
		nparam int
	}
	type portalDef struct {
		st     stmtDef
		params []bindParam
		rf     []uint16
	}
	stmts := map[string]stmtDef{}
	portals := map[string]portalDef{}
	in := plainStartup("u")
	var xp, xev []string
	n := 3 + r.Intn(30)
	for i := 0; i < n; i++ {
		name := pick(r, namePool)
		switch k := r.Intn(12); {
		case k < 3:
			ncols := r.Intn(3)
			cols := make([]string, ncols)
			vals := make([]string, ncols)
			for j := range cols {
				cols[j] = "t"
				vals[j] = "t" + hxs("v"+strconv.Itoa(i))
			}
			nparam := r.Intn(3)
			ps := make([]string, nparam)
			for j := range ps {
				ps[j] = "25"
			}
			tag := "S" + strconv.Itoa(i)
			q := strings.Join(cols, ",") + "/" + strings.Join(ps, ",") + "/r:" + strings.Join(vals, ",") + ";c:" + hxs(tag) + "/ok"
			if r.Intn(4) == 0 {
				// filler: a long statement text, so that a history crosses the reader's 4 KiB granules
				q += "/" + strings.Repeat("filler ", 100+r.Intn(150))
			}
			in = append(in, msgParse(name, q, randOids(r, nparam))...)
			stmts[name] = stmtDef{query: q, ncols: ncols, nparam: nparam}
			xp = append(xp, "1")
		case k < 6:
			sname := pick(r, namePool)
			np := r.Intn(3)
			params := make([]bindParam, np)
			for j := range params {
				params[j].v = []byte("b" + strconv.Itoa(i) + "p" + strconv.Itoa(j))
			}
			var rf []uint16
			if r.Intn(2) == 0 {
				rf = []uint16{uint16(r.Intn(2))}
			}
			in = append(in, msgBind(name, sname, nil, params, rf)...)
			if st, ok := stmts[sname]; ok {
				portals[name] = portalDef{st: st, params: params, rf: rf}
				xp = append(xp, "2")
			} else {
				xp = append(xp, "E42P14:FATAL")
			}
		case k < 8:
			in = append(in, msgExecute(name, 0)...)
			if p, ok := portals[name]; ok {
				ps := make([]string, len(p.params))
				for j, bp := range p.params {
					ps[j] = "0." + hex.EncodeToString(bp.v)
				}
				xev = append(xev, "X:"+hxs(p.st.query)+":0:"+strings.Join(ps, ","))
				xp = append(xp, "D"+strconv.Itoa(p.st.ncols), xpC(p.st.query[strings.LastIndex(p.st.query, "c:")+2:strings.LastIndex(p.st.query, "/ok")]))
				// the tag is stored hex-encoded in the script; xpC hex-encodes again, so decode first
				xp[len(xp)-1] = "C" + p.st.query[strings.LastIndex(p.st.query, "c:")+2:strings.LastIndex(p.st.query, "/ok")]
			} else {
				xp = append(xp, "E34000:ERROR")
			}
		case k < 10:
			if r.Intn(2) == 0 {
				in = append(in, msgDescribe('S', name)...)
				if st, ok := stmts[name]; ok {
					xp = append(xp, "t"+strconv.Itoa(st.nparam))
					if st.ncols == 0 {
						xp = append(xp, "n")
					} else {
						xp = append(xp, "T"+strconv.Itoa(st.ncols))
					}
				} else {
					xp = append(xp, "EXXUUU:ERROR")
				}
			} else {
				in = append(in, msgDescribe('P', name)...)
				if p, ok := portals[name]; ok {
					if p.st.ncols == 0 {
						xp = append(xp, "n")
					} else {
						xp = append(xp, "T"+strconv.Itoa(p.st.ncols))
					}
				} else {
					xp = append(xp, "EXXUUU:ERROR")
				}
			}
		default:
			if r.Intn(2) == 0 {
				in = append(in, msgClose('S', name)...)
				delete(stmts, name)
			} else {
				in = append(in, msgClose('P', name)...)
				delete(portals, name)
			}
			xp = append(xp, "3")
		}
		in = append(in, msgSync()...)
		xp = append(xp, "Z")
	}
	c.In = in
	c.Cuts = randCuts(r, len(in))
	c.Extra["xp"] = strings.Join(xp, ",")
	c.Extra["xev"] = "=" + strings.Join(xev, ";")
	c.Extra["xend"] = "w"
	return c
}

func init() { generators["names"] = genNames }

// genCopy (C13): a simple Query starts COPY-in; then CopyData / CopyDone / CopyFail / Flush /
// Sync / foreign / oversized messages; the handler reads up to n chunks, with or without
// returning the read error; stray COPY messages and a probe query follow.
// xk = the reads the handler must observe, xp = the reply notation (simulated here).
func genCopy(r *rand.Rand, id string) *Case {
	c := baseCase(id, "copy")
	c.L = []int{0, 64}[r.Intn(2)]
	in := plainStartup("u")
	ncols := 1 + r.Intn(3)
	cols := make([]string, ncols)
	for i := range cols {
		cols[i] = "t"
	}
	format := r.Intn(2)
	nreads := 1 + r.Intn(6)
	guard := r.Intn(2) == 0
	g := ""
	if guard {
		g = "?"
	}
	script := strings.Join(cols, ",") + "//g:" + strconv.Itoa(format) + ";K" + strconv.Itoa(nreads) + g + ";c:" + hxs("COPY 1") + "/ok"
	if len(script)+1 > 64 && c.L == 64 {
		c.L = 256
	}
	// what CopyInResponse announces is what the handler asked for: the overall format and one code per column
	fm := make([]string, ncols)
	for i := range fm {
		fm[i] = strconv.Itoa(format)
	}
	c.Extra["xg"] = strconv.Itoa(format) + ":" + strings.Join(fm, ".")
	if r.Intn(6) == 0 {
		// COPY started through Parse/Bind/Execute; the Bind carries result-format codes of its own, which
		// describe DataRows, not the copy-in stream
		var rf []uint16
		switch r.Intn(3) {
		case 0:
			rf = []uint16{uint16(1 - format)}
		case 1:
			rf = make([]uint16, ncols)
			for i := range rf {
				rf[i] = uint16(r.Intn(2))
			}
		}
		in = append(in, msgParse("cp", script, nil)...)
		in = append(in, msgBind("", "cp", nil, nil, rf)...)
		in = append(in, msgExecute("", 0)...)
		for i := 0; i < nreads; i++ {
			in = append(in, msgCopyData(randBytes(r, 1+r.Intn(9), false))...)
		}
		in = append(in, msgCopyDone()...)
		in = append(in, msgSync()...)
		in = append(in, msgQuery(probeQuery("END", 0))...)
		c.In = in
		c.Cuts = randCuts(r, len(in))
		c.Extra["xtail"] = "Z," + xpC("END") + ",Z"
		c.Extra["xend"] = "w"
		return c
	}
	L := c.L
	in = append(in, msgQuery(script)...)
	xp := []string{"T" + strconv.Itoa(ncols), "G"}
	var xk []string
	// client messages during the COPY
	nm := r.Intn(7)
	reads := 0
	over := false // handler has left its read loop
	var handlerErr string
	for i := 0; i < nm; i++ {
		var m []byte
		kind := r.Intn(12)
		switch {
		case kind < 5:
			p := randBytes(r, r.Intn(9), false)
			m = msgCopyData(p)
			if !over {
				xk = append(xk, "k+"+hex.EncodeToString(p))
				reads++
			}
		case kind < 6:
			m = msgCopyDone()
			if !over {
				xk = append(xk, "k.")
				over = true
			}
		case kind < 7:
			m = msgCopyFail("why")
			if !over {
				xk = append(xk, "k-L"+hxs("client aborted copy: why"))
				over = true
				handlerErr = "EXXUUU:ERROR"
			}
		case kind < 9:
			m = [][]byte{msgFlush(), msgSync()}[r.Intn(2)]
			if over && m[0] == 'S' {
				// after the handler returned the cycle has ended (see below): a Sync is answered
				in = append(in, m...)
				if !guardDone(xp) {
					xp = finishCopy(xp, guard, handlerErr)
				}
				xp = append(xp, "Z")
				continue
			}
		case kind < 10:
			// any non-COPY message aborts the COPY with a non-nil, non-EOF error - Terminate and
			// Query included
			t := []byte("PBDECXQ")[r.Intn(7)]
			m = typed(t, []byte{0, 0, 0, 0, 0, 0, 0, 0})
			if !over {
				xk = append(xk, "k-L"+hxs("unimplemented client message type: "+strconv.Itoa(int(t))))
				over = true
				handlerErr = "E08003:FATAL"
			} else {
				// processed at top level after the cycle: only safe to predict for none here; avoid
				continue
			}
		default:
			if L == 0 {
				continue
			}
			sz := L + 1 + r.Intn(L)
			m = typed('d', randBytes(r, sz, false))
			if !over {
				xk = append(xk, "k-L"+hxs("message size "+strconv.Itoa(sz)+", bigger than maximum allowed message size "+strconv.Itoa(L)))
				over = true
				handlerErr = "E54000:ERROR"
			} else {
				in = append(in, m...)
				if !guardDone(xp) {
					xp = finishCopy(xp, guard, handlerErr)
				}
				xp = append(xp, "E54000:ERROR")
				continue
			}
		}
		in = append(in, m...)
		if !over && reads >= nreads {
			over = true
		}
	}
	if !over && r.Intn(3) == 0 {
		// the client's stream ENDS inside the next message (after its type byte, inside or right behind its
		// header, inside its body) while the handler is still reading: the handler must see an error that is
		// not end-of-stream - a truncated COPY must never look like a completed one
		tail := [][]byte{{'d'}, {'d', 0, 0, 0, 9}, {'d', 0, 0, 0, 9, 1, 2}, {'c'}, {'c', 0, 0}, {'f', 0, 0, 0, 8}, {'H', 0, 0, 0}, {'d', 0}}[r.Intn(8)]
		in = append(in, tail...)
		c.EOF = true
		xk = append(xk, "k-L"+hxs("unexpected EOF"))
		c.In = in
		c.Cuts = randCuts(r, len(in))
		c.Extra["xk"] = "=" + strings.Join(xk, ";")
		return c
	}
	if !over {
		// the handler is still waiting for input: nothing more is written
		c.In = in
		c.Cuts = randCuts(r, len(in))
		c.Extra["xp"] = strings.Join(xp, ",")
		c.Extra["xk"] = "=" + strings.Join(xk, ";")
		c.Extra["xend"] = "w"
		return c
	}
	if !guardDone(xp) {
		xp = finishCopy(xp, guard, handlerErr)
	}
	// stray COPY messages outside COPY mode are ignored; then a probe
	for i := 0; i < r.Intn(3); i++ {
		in = append(in, [][]byte{msgCopyData([]byte("zz")), msgCopyDone(), msgCopyFail("late")}[r.Intn(3)]...)
	}
	q := probeQuery("END", 0)
	if L == 0 || len(q)+1 <= L {
		in = append(in, msgQuery(q)...)
		xp = append(xp, xpC("END"), "Z")
	}
	c.In = in
	c.Cuts = randCuts(r, len(in))
	c.Extra["xp"] = strings.Join(xp, ",")
	c.Extra["xk"] = "=" + strings.Join(xk, ";")
	c.Extra["xend"] = "w"
	return c
}

// guardDone reports whether the COPY cycle's end has already been appended to xp.
func guardDone(xp []string) bool {
	for _, x := range xp[2:] {
		if x == "Z" || strings.HasPrefix(x, "C") || strings.HasPrefix(x, "E") {
			return true
		}
	}
	return false
}

// finishCopy appends the end of the COPY cycle: the handler returns the read error (guard) ->
// one ErrorResponse, or completes -> CommandComplete; then exactly one ReadyForQuery.
func finishCopy(xp []string, guard bool, handlerErr string) []string {
	if guard && handlerErr != "" {
		return append(xp, handlerErr, "Z")
	}
	return append(xp, "C"+hxs("COPY 1"), "Z")
}

func init() { generators["copy"] = genCopy }

const binVariants = 7

// genBinCopy (C14): a table shape and row set over the supported types, encoded in the binary
// COPY format (optional header incl. extension area, optional trailer) and cut into CopyData
// messages in five ways (group = base index); sometimes corrupted (field count, lengths,
// truncation, data after the trailer). xb = the rows the row reader must return.
func genBinCopy(_ *rand.Rand, id string) *Case {
	seed, idx := idIndex(id)
	base := idx / binVariants
	variant := idx % binVariants
	r := rand.New(rand.NewSource(seed*15485863 + int64(base)*7 + 3))
	c := baseCase(id, "bincopy")
	c.Extra["grp"] = strconv.Itoa(base)
	letters := []byte("islt" + "ybuz")
	ncols := 1 + r.Intn(4)
	cols := make([]byte, ncols)
	colspec := make([]string, ncols)
	for i := range cols {
		cols[i] = letters[r.Intn(len(letters))]
		colspec[i] = string(cols[i])
	}
	nrows := r.Intn(5)
	var stream []byte
	header := r.Intn(4) != 0
	if header {
		stream = append(stream, []byte("PGCOPY\n\377\r\n\000")...)
		stream = append(stream, be32(uint32(r.Intn(2))<<16)...)
		ext := 0
		if r.Intn(5) == 0 {
			ext = r.Intn(6)
		}
		stream = append(stream, be32(uint32(ext))...)
		stream = append(stream, randBytes(r, ext, false)...)
	}
	var xb []string
	var rowStarts []int
	var rowEnds []int
	for i := 0; i < nrows; i++ {
		if i > 0 {
			rowEnds = append(rowEnds, len(stream))
		}
		rowStarts = append(rowStarts, len(stream))
		stream = append(stream, be16(uint16(ncols))...)
		vals := make([]string, ncols)
		for j, l := range cols {
			if r.Intn(5) == 0 {
				stream = append(stream, 0xff, 0xff, 0xff, 0xff)
				vals[j] = "n"
				continue
			}
			var raw []byte
			switch l {
			case 's':
				v := int16(r.Intn(65536) - 32768)
				raw = be16(uint16(v))
				vals[j] = "i" + strconv.Itoa(int(v))
			case 'i':
				v := int32(r.Uint32())
				raw = be32(uint32(v))
				vals[j] = "i" + strconv.FormatInt(int64(v), 10)
			case 'l':
				v := int64(r.Uint64())
				raw = append(be32(uint32(uint64(v)>>32)), be32(uint32(uint64(v)))...)
				vals[j] = "i" + strconv.FormatInt(v, 10)
			case 't', 'z':
				raw = randBytes(r, r.Intn(7), false)
				vals[j] = "t" + hex.EncodeToString(raw)
			case 'y':
				raw = randBytes(r, r.Intn(7), false)
				vals[j] = "y" + hex.EncodeToString(raw)
			case 'b':
				b := r.Intn(2)
				raw = []byte{byte(b)}
				vals[j] = "b" + strconv.Itoa(b)
			case 'u':
				raw = randBytes(r, 16, false)
				vals[j] = "u" + hex.EncodeToString(raw)
			}
			stream = append(stream, be32(uint32(len(raw)))...)
			stream = append(stream, raw...)
		}
		xb = append(xb, "b+"+strings.Join(vals, ","))
	}
	if nrows > 0 {
		rowEnds = append(rowEnds, len(stream))
	}
	trailer := r.Intn(2) == 0
	if trailer {
		stream = append(stream, 0xff, 0xff)
	}
	xb = append(xb, "b.")
	insideRow := false
	// corruption
	valid := true
	badRow := -1        // the row whose field count lies
	prefixOnly := false // only rows of the original stream may be returned
	switch r.Intn(9) {
	case 0:
		if nrows > 0 { // field count off by one in some row
			badRow = r.Intn(nrows)
			p := rowStarts[badRow]
			d := 1
			if r.Intn(2) == 0 && ncols > 1 {
				d = -1
			}
			copy(stream[p:p+2], be16(uint16(ncols+d)))
			valid = false
		}
	case 1:
		if len(stream) > 3 { // truncated somewhere
			cutAt := 1 + r.Intn(len(stream)-1)
			stream = stream[:cutAt]
			valid = false
			prefixOnly = true
			for i := range rowStarts {
				if rowStarts[i] < cutAt && cutAt < rowEnds[i] {
					insideRow = true // the stream ends in the middle of a row: an error, never a clean end
				}
			}
		}
	case 2:
		if nrows > 0 { // a corrupted field length word
			p := rowStarts[r.Intn(nrows)] + 2
			bad := []uint32{0x80000000, 0xfffffffe, 0x7fffffff, 0x00100000, 200}[r.Intn(5)]
			copy(stream[p:p+4], be32(bad))
			valid = false
		}
	case 3:
		if trailer { // data after the trailer
			stream = append(stream, randBytes(r, 1+r.Intn(4), false)...)
			valid = false
			prefixOnly = true
		}
	}
	// chunking
	var chunks [][]byte
	n := len(stream)
	cut := func(points []int) {
		prev := 0
		for _, p := range points {
			if p > prev && p < n {
				chunks = append(chunks, stream[prev:p])
				prev = p
			}
		}
		chunks = append(chunks, stream[prev:])
	}
	switch variant {
	case 0:
		cut(nil)
	case 1:
		var pts []int
		for k := 1; k < n; k++ {
			pts = append(pts, k)
		}
		cut(pts)
	case 2:
		r2 := rand.New(rand.NewSource(seed + int64(idx)))
		var pts []int
		for k := 1; k < n; k++ {
			if r2.Intn(4) == 0 {
				pts = append(pts, k)
			}
		}
		cut(pts)
	case 3:
		cut(rowStarts)
	case 4:
		pts := []int{5, 11, 15, 19}
		for _, p := range rowStarts {
			pts = append(pts, p+1, p+3, p+7)
		}
		sort.Ints(pts)
		cut(pts)
	case 5:
		// message boundaries at the rows; empty CopyData messages are added below (they contribute nothing)
		cut(rowStarts)
	case 6:
		// a small limit; the first message ends inside a row (or inside the header), every further message is
		// as large as the limit allows
		if !valid {
			cut(nil) // a corrupted length is reported differently under a small limit: keep the default one
			break
		}
		c.L = 64
		p0 := 5
		if len(rowStarts) > 0 {
			p0 = rowStarts[0] + 3
		}
		pts := []int{p0}
		for p := p0 + c.L; p < n; p += c.L {
			pts = append(pts, p)
		}
		cut(pts)
	}
	script := strings.Join(colspec, ",") + "//g:1;B;A" + strconv.Itoa(nrows+3) + "?;c:" + hxs("COPY") + "/ok"
	in := plainStartup("u")
	in = append(in, msgQuery(script)...)
	for _, ch := range chunks {
		if len(ch) == 0 && n > 0 {
			continue
		}
		in = append(in, msgCopyData(ch)...)
		if variant == 5 && r.Intn(3) == 0 {
			in = append(in, msgCopyData(nil)...)
		}
		if r.Intn(6) == 0 {
			in = append(in, msgFlush()...) // ignored inside COPY
		}
	}
	if variant == 5 {
		// also behind the last data byte (the trailer, when there is one), in front of CopyDone
		in = append(in, msgCopyData(nil)...)
	}
	in = append(in, msgCopyDone()...)
	in = append(in, msgQuery(probeQuery("END", 0))...)
	c.In = in
	// whatever the stream was, the COPY cycle is closed with ReadyForQuery and the session goes on
	c.Extra["xtail"] = "Z," + xpC("END") + ",Z"
	c.Extra["xend"] = "w"
	if badRow >= 0 || insideRow {
		c.Extra["xne"] = "1" // the handler forwards the reader's error: reported once
	}
	if badRow >= 0 {
		// the rows before the lying one, then an error: never a crash, never a fabricated row
		c.Extra["xbk"] = "=" + strings.Join(xb[:badRow], ";")
	}
	if insideRow {
		c.Extra["xbt"] = "=1"
	}
	if prefixOnly {
		// whatever is returned as a row is a row the client encoded, in order
		c.Extra["xbg"] = "=" + strings.Join(xb[:len(xb)-1], ";")
	}
	if valid {
		c.Extra["xb"] = "=" + strings.Join(xb, ";")
		c.Extra["xp"] = "T" + strconv.Itoa(ncols) + ",G," + "C" + hxs("COPY") + ",Z," + xpC("END") + ",Z"
	}
	return c
}

func init() { generators["bincopy"] = genBinCopy }

// genAuth (C01): clear-text authentication configured; accepted / rejected / failing validator
// (decided by the password's content), every kind of message in place of the password, and a
// continuation that would be served if the gate leaked.
func genAuth(r *rand.Rand, id string) *Case {
	c := baseCase(id, "auth")
	c.Auth = true
	c.L = []int{0, 128}[r.Intn(2)]
	user := pick(r, []string{"alice", "bob", ""})
	kv := [][2]string{{"user", user}}
	if r.Intn(2) == 0 {
		kv = append(kv, [2]string{"database", pick(r, []string{"db", ""})})
	}
	in := startup(196608, kv, true)
	if r.Intn(4) == 0 {
		// surplus bytes behind the terminator of the parameter list (ignored by the library), shaped like
		// an acceptable password: no later message may be authenticated against them
		in = startupSurplus(kv, []byte(pick(r, []string{"ok\x00", "okay\x00rest", "ok"})))
	}
	switch k := r.Intn(18); {
	case k == 16: // the validator reports the comparison AND an error: a failure, not an accept
		in = append(in, msgPassword(pick(r, []string{"failok", "failokay"}))...)
	case k == 17: // a password message without any body
		in = append(in, typed('p', nil)...)
	case k < 4:
		in = append(in, msgPassword(pick(r, []string{"ok", "okay", "ok\xff"}))...)
	case k < 8:
		in = append(in, msgPassword(pick(r, []string{"bad", "", "o", "OK", "wrong password", "k"}))...)
	case k < 10:
		in = append(in, msgPassword(pick(r, []string{"fail", "failure", "faileof"}))...)
	case k < 11: // another message type carrying a valid-looking password
		in = append(in, typed([]byte("QPXSdcfBE\x00z")[r.Intn(11)], cstr("ok"))...)
	case k < 12: // no NUL terminator
		in = append(in, typed('p', []byte("ok"))...)
	case k < 13: // oversized (or just large) password message
		sz := 200
		in = append(in, typed('p', append([]byte("ok"), make([]byte, sz)...))...)
	case k < 14: // declared length below the minimum / truncated header
		in = append(in, typedLen('p', uint32(r.Intn(4)), nil)...)
	case k < 15: // incomplete password message: the server must wait, not proceed
		m := msgPassword("ok")
		if r.Intn(2) == 0 {
			// announces more than ever arrives, although what arrives looks like a complete, acceptable
			// password; the client then hangs up (or stalls): never a login
			m = typedLen('p', uint32(4+3+1+r.Intn(40)), []byte("ok\x00"))
			in = append(in, m...)
			c.In = in
			c.EOF = r.Intn(3) != 0
			return c
		}
		in = append(in, m[:1+r.Intn(len(m)-1)]...)
		c.In = in
		return c
	default: // nothing at all after the startup packet; sometimes the client also hangs up
		c.In = in
		c.EOF = r.Intn(2) == 0
		return c
	}
	// continuation
	msgs := genSessionMsgs(r, r.Intn(6), 100, false)
	msgs = append(msgs, msgQuery(probeQuery("LEAK", 0)))
	in = append(in, flatten(msgs)...)
	c.In = in
	if r.Intn(2) == 0 {
		c.Cuts = randCuts(r, len(in))
	}
	if r.Intn(3) == 0 {
		c.MW = "o"
	}
	return c
}

func init() { generators["auth"] = genAuth }

// startupSurplus: a protocol 3.0 start-up packet whose declared length covers `extra` bytes behind the
// terminator of the parameter list
func startupSurplus(kv [][2]string, extra []byte) []byte {
	p := startup(196608, kv, true)
	p = append(p, extra...)
	binary.BigEndian.PutUint32(p[:4], uint32(len(p)))
	return p
}

func kvHex(m map[string]string) string {
	keys := make([]string, 0, len(m))
	for k := range m {
		keys = append(keys, k)
	}
	sort.Strings(keys)
	parts := make([]string, len(keys))
	for i, k := range keys {
		parts[i] = hxs(k) + "=" + hxs(m[k])
	}
	return strings.Join(parts, ",")
}

// genStartup (C12): startup packets (duplicate keys, empty values, missing terminator, odd
// versions), SSLRequest answered 'N', CancelRequest at every stage, configured global
// parameters and version. xcp / xsp = the client / server parameters a handler must see,
// xs = the ParameterStatus set on the wire.
func genStartup(r *rand.Rand, id string) *Case {
	c := baseCase(id, "startup")
	c.CX = true
	c.TLS = r.Intn(2)
	if r.Intn(3) == 0 {
		c.Ver = []byte(pick(r, []string{"15.3", "verif 1"}))
	}
	cfgMap := map[string]string{}
	if r.Intn(2) == 0 {
		c.GPNil = false
		for _, k := range []string{"application_name", "server_encoding", "client_encoding", "TimeZone", "is_superuser", "session_authorization", "server_version"} {
			if r.Intn(3) == 0 {
				v := pick(r, []string{"x", "", "LATIN1", "on", "UTC"})
				cfgMap[k] = v
				c.GP = append(c.GP, [2][]byte{[]byte(k), []byte(v)})
			}
		}
	}
	var in []byte
	ssl := r.Intn(4) == 0
	if ssl {
		in = append(in, startup(80877103, nil, false)...)
	}
	// a second (third) SSLRequest behind the refused one is not an encryption request any more but an invalid
	// start-up packet: nothing further is sent, no callback runs, the connection is closed (C11)
	if r.Intn(12) == 0 {
		in = in[:0]
		for i := 0; i < 2+r.Intn(2); i++ {
			in = append(in, startup(80877103, nil, false)...)
		}
		if r.Intn(2) == 0 {
			in = append(in, startup(196608, [][2]string{{"user", "u"}}, true)...)
			in = append(in, msgQuery(probeQuery("AFTERSSL", 0))...)
		}
		c.In = in
		c.Cuts = randCuts(r, len(in))
		c.Extra["xpre"] = ""
		c.Extra["xend"] = "c"
		c.Extra["xnoev"] = "1"
		return c
	}
	// cancel at a negotiation stage
	if r.Intn(8) == 0 {
		in = append(in, append(be32(16), append(be32(80877102), randBytes(r, 8, false)...)...)...)
		in = append(in, msgQuery(probeQuery("AFTERCANCEL", 0))...)
		c.In = in
		c.Cuts = randCuts(r, len(in))
		c.Extra["xpre"] = ""
		c.Extra["xend"] = "c"
		c.Extra["xnoev"] = "1"
		return c
	}
	keys := []string{"user", "database", "application_name", "client_encoding", "x", "options"}
	n := r.Intn(7)
	var kv [][2]string
	client := map[string]string{}
	for i := 0; i < n; i++ {
		k := keys[r.Intn(len(keys))]
		v := pick(r, []string{"alice", "bob", "", "db1", "UTF8", "a b", "é"})
		kv = append(kv, [2]string{k, v})
		client[k] = v
	}
	version := uint32(196608)
	if r.Intn(8) == 0 {
		version = []uint32{80877104, 131072, 196609, 0x12345678}[r.Intn(4)]
	}
	term := r.Intn(12) != 0
	in = append(in, startup(version, kv, term)...)
	if !term && n > 0 {
		// no terminator: the connection ends, nothing reaches a callback
		in = append(in, msgQuery(probeQuery("NOTERM", 0))...)
		c.In = in
		c.Cuts = randCuts(r, len(in))
		c.Extra["xpre"] = ""
		c.Extra["xend"] = "c"
		c.Extra["xnoev"] = "1"
		return c
	}
	if !term && n == 0 {
		// body is just the version: GetString finds no NUL -> the connection ends as well
		in = append(in, msgQuery(probeQuery("NOTERM", 0))...)
		c.In = in
		c.Extra["xpre"] = ""
		c.Extra["xend"] = "c"
		c.Extra["xnoev"] = "1"
		return c
	}
	in = append(in, msgQuery(probeQuery("PROBE", 0))...)
	c.In = in
	c.Cuts = randCuts(r, len(in))
	server := map[string]string{}
	for k, v := range cfgMap {
		server[k] = v
	}
	server["server_encoding"] = "UTF8"
	server["client_encoding"] = "UTF8"
	if len(c.Ver) > 0 {
		server["server_version"] = string(c.Ver)
	}
	server["is_superuser"] = "off"
	server["session_authorization"] = client["user"]
	c.Extra["xcp"] = "=" + kvHex(client)
	c.Extra["xsp"] = "=" + kvHex(server)
	c.Extra["xp"] = xpC("PROBE") + ",Z"
	c.Extra["xend"] = "w"
	return c
}

// genLifecycle (C19): 0..6 session middlewares succeeding or failing at any position, with and
// without a terminate hook, command histories with probes and Terminate.
func genLifecycle(r *rand.Rand, id string) *Case {
	c := baseCase(id, "lifecycle")
	c.CX = true
	n := r.Intn(7)
	mw := make([]byte, n)
	fail := -1
	for i := range mw {
		mw[i] = 'o'
		if fail < 0 && r.Intn(6) == 0 {
			mw[i] = "fn"[r.Intn(2)]
			fail = i
		}
	}
	c.MW = string(mw)
	c.Term = r.Intn(3)
	in := plainStartup("u")
	var xp []string
	nq := r.Intn(4)
	for i := 0; i < nq; i++ {
		tag := "L" + strconv.Itoa(i)
		if r.Intn(3) == 0 {
			// several statements in one Query: each of them runs with a live context of its own
			k := 2 + r.Intn(2)
			var parts []string
			for j := 0; j < k; j++ {
				parts = append(parts, probeQuery(tag+"s"+strconv.Itoa(j), 0))
				xp = append(xp, xpC(tag+"s"+strconv.Itoa(j)))
			}
			in = append(in, msgQuery(strings.Join(parts, "|"))...)
			xp = append(xp, "Z")
			continue
		}
		in = append(in, msgQuery(probeQuery(tag, 0))...)
		xp = append(xp, xpC(tag), "Z")
	}
	terminated := r.Intn(2) == 0
	failedBatch := terminated && r.Intn(3) == 0
	if failedBatch {
		// an extended-query message fails and the client gives up without Sync: Terminate must
		// still be honoured while the rest of the batch is being discarded
		in = append(in, msgParse("", "!C"+hxs("42601")+".B"+hxs("x"), nil)...)
		in = append(in, msgBind("", "", nil, nil, nil)...)
		xp = append(xp, "E42601:ERROR")
		nq++
	}
	if terminated {
		in = append(in, msgTerminate()...)
		in = append(in, msgQuery(probeQuery("AFTERX", 0))...)
	}
	c.In = in
	if r.Intn(2) == 0 {
		c.Cuts = randCuts(r, len(in))
	}
	marks := make([]string, 0, n)
	for i := 0; i < n; i++ {
		marks = append(marks, strconv.Itoa(i))
	}
	var xm []string
	if fail >= 0 {
		for i := 0; i <= fail; i++ {
			xm = append(xm, "M"+strconv.Itoa(i))
		}
		c.Extra["xnoZ"] = "1" // no ReadyForQuery at all, no command served
		c.Extra["xend"] = "c"
		c.Extra["xmw"] = "=" + strings.Join(xm, ";") // these and nothing else
		c.Extra["xonlymw"] = "1"
		return c
	}
	for i := 0; i < n; i++ {
		xm = append(xm, "M"+strconv.Itoa(i))
	}
	c.Extra["xmw"] = "=" + strings.Join(xm, ";")
	c.Extra["xmarks"] = "=" + strings.Join(marks, ".")
	c.Extra["xp"] = strings.Join(xp, ",")
	c.Extra["xncb"] = strconv.Itoa(nq) // parser calls (= statement calls) expected
	if terminated {
		c.Extra["xend"] = "c"
		if c.Term > 0 {
			c.Extra["xterm"] = "1"
		} else {
			c.Extra["xterm"] = "0"
		}
	} else {
		c.Extra["xend"] = "w"
		c.Extra["xterm"] = "0"
	}
	return c
}

func init() {
	generators["startup"] = genStartup
	generators["lifecycle"] = genLifecycle
}

// genMulti (C12 / C15 / C07): 2..4 connections with different users served by ONE server, using
// the same statement and portal names; either phased (every connection starts, then every
// connection continues) or fully concurrent with random pacing. Each connection's transcript
// and callback trace must equal what the same traffic produces when served alone.
func genMulti(r *rand.Rand, id string) *Case {
	c := baseCase(id, "multi")
	c.CX = true
	withTerm := r.Intn(3) == 0
	if withTerm {
		c.Term = 1
	}
	k := 2 + r.Intn(3)
	c.Extra["conns"] = strconv.Itoa(k)
	if r.Intn(2) == 0 {
		c.Extra["sched"] = "par"
	} else {
		c.Extra["sched"] = "seq"
	}
	if r.Intn(2) == 0 {
		c.GPNil = false
		c.GP = append(c.GP, [2][]byte{[]byte("application_name"), []byte("shared")})
		if r.Intn(2) == 0 {
			c.GP = append(c.GP, [2][]byte{[]byte("session_authorization"), []byte("nobody")})
		}
	}
	if r.Intn(3) == 0 {
		c.MW = "oo"
	}
	users := []string{"alice", "bob", "carol", "dave"}
	var ins, pcs []string
	// variants: (1) clear-text authentication with the password exchanges of the connections
	// overlapping; (2) connection 0 leaves a failed extended-query batch open (no Sync yet) while
	// the others run complete cycles; (3) parameters of an array type decoded concurrently (the
	// codec memoizes its plan in the type map: a shared map shows up under the race detector)
	variant := r.Intn(12)
	if variant == 1 {
		c.Auth = true
	}
	if variant == 10 {
		// every connection prepares the SAME statement name and stops right behind its Parse; the others then
		// prepare, bind and execute that name; what a connection binds afterwards is its own statement (C07)
		c.Extra["sched"] = "seq"
	}
	if variant == 11 {
		// connection 0 stalls inside its start-up packet (or right behind an SSLRequest) while the others
		// connect and run: admission of a connection must not wait for another connection's handshake (C15)
		c.Extra["sched"] = "seq"
	}
	if variant == 9 {
		// the first phase of every connection ends INSIDE the 4-byte length field of a message of 256 bytes or
		// more, the other connections then read complete messages: what a connection makes of its bytes
		// must not depend on what the others read in between (C03, C15)
		c.Extra["sched"] = "seq"
	}
	if variant == 8 {
		// several logins of the SAME role overlap: the validator of connection 0 (right password) is still
		// busy (held) while the others - some with a wrong password and a query pipelined behind it - arrive;
		// every connection's verdict must be its own (C01)
		c.Auth = true
		c.Extra["sched"] = "seq"
		c.Extra["hold"] = "1"
	}
	if variant == 7 {
		// connection 0 is a CancelRequest (ends at once, nothing is served); the connections that follow
		// are open at the same time and must not be affected by it
		c.Extra["sched"] = "seq"
		c.Extra["early"] = "1"
		if k < 3 {
			k = 3
			c.Extra["conns"] = "3"
		}
	}
	if variant == 4 {
		// connection 0 runs to its end and is closed before the others start: what its callbacks
		// retained must survive the traffic of later connections (C18)
		c.Extra["sched"] = "seq"
		c.Extra["early"] = "1"
	}
	for i := 0; i < k; i++ {
		in := startup(196608, [][2]string{{"user", users[i]}, {"database", "db" + strconv.Itoa(i)}}, true)
		pc := -1
		if variant == 8 {
			in = startup(196608, [][2]string{{"user", users[0]}, {"database", "db0"}}, true)
			pw := "okhold-" + users[0]
			if i > 0 {
				pw = pick(r, []string{"wrong-" + users[0], "fail-" + users[0], "ok-" + users[0], "", "okhold-" + users[0]})
			}
			in = append(in, msgPassword(pw)...)
			in = append(in, msgQuery(probeQuery("first"+strconv.Itoa(i), 0))...)
			in = append(in, msgQuery(probeQuery("last"+strconv.Itoa(i), 0))...)
			ins = append(ins, hex.EncodeToString(in))
			pcs = append(pcs, strconv.Itoa(1<<30))
			continue
		}
		if variant == 7 && i == 0 {
			in = append(be32(16), append(be32(80877102), randBytes(r, 8, false)...)...)
			ins = append(ins, hex.EncodeToString(in))
			pcs = append(pcs, strconv.Itoa(1<<30))
			continue
		}
		if c.Auth {
			if r.Intn(3) != 0 {
				pc = len(in) // phase 1 ends between the startup packet and the password message
			}
			in = append(in, msgPassword("ok-"+users[i])...)
		}
		if variant == 9 {
			pc = len(in) + 1 + 1 + r.Intn(3) // type byte + 1..3 bytes of the length
			in = append(in, msgQuery(probeQuery("big"+strconv.Itoa(i), []int{300, 300 + r.Intn(300), 300 + r.Intn(70000)}[r.Intn(3)]))...)
		}
		in = append(in, msgQuery(probeQuery("first"+strconv.Itoa(i), 0))...)
		if variant == 2 && i == 0 {
			in = append(in, msgParse("broken", "!B"+hxs("boom"), nil)...) // fails: discard until Sync
			pc = len(in)
		}
		if pc < 0 {
			pc = len(in)
		}
		if variant == 2 && i > 0 {
			pc = 1 << 30 // the whole session runs while connection 0 is still discarding
		}
		if variant == 4 && i == 0 {
			pc = 1 << 30
		}
		// same names on every connection, different definitions
		q := "t,i/25/r:t" + hxs(users[i]) + ",i" + strconv.Itoa(i) + ";s:25,0;c:" + hxs("ROW") + "/ok"
		params := []bindParam{{v: []byte("p-" + users[i])}}
		if variant == 3 {
			q = "t,i/25,1007/r:t" + hxs(users[i]) + ",i" + strconv.Itoa(i) + ";s:25,0;s:1007,1;c:" + hxs("ROW") + "/ok"
			params = append(params, bindParam{v: []byte("{1,2," + strconv.Itoa(i) + "}")})
		}
		name := pick(r, namePool)
		if variant == 10 {
			name = "shared-name"
		}
		if variant == 11 && i == 0 {
			pc = 1 + r.Intn(20) // inside the start-up packet
		}
		if r.Intn(3) == 0 {
			// every connection prepares the SAME statement text (declared parameter type unspecified), some
			// prespecify a type for it: what one connection is told must not depend on the others
			var pre []uint32
			if r.Intn(2) == 0 {
				pre = []uint32{uint32(23 + i)}
			}
			in = append(in, msgParse("shared", "/P//ok/ select $1", pre)...)
			in = append(in, msgDescribe('S', "shared")...)
		}
		in = append(in, msgParse(name, q, randOids(r, 2))...)
		if variant == 10 {
			pc = len(in)
		}
		in = append(in, msgBind(name, name, nil, params, nil)...)
		in = append(in, msgDescribe('P', name)...)
		in = append(in, msgExecute(name, 0)...)
		if r.Intn(3) == 0 {
			in = append(in, msgClose('S', name)...)
		}
		in = append(in, msgSync()...)
		in = append(in, msgQuery(probeQuery("last"+strconv.Itoa(i), 0))...)
		if withTerm && r.Intn(3) != 0 {
			in = append(in, msgTerminate()...) // the terminate hook runs for every connection that terminates
		}
		ins = append(ins, hex.EncodeToString(in))
		pcs = append(pcs, strconv.Itoa(pc))
	}
	c.Extra["min"] = strings.Join(ins, "/")
	c.Extra["pc"] = strings.Join(pcs, "/")
	return c
}

func init() { generators["multi"] = genMulti }

// genHeap (C18): message sizes around the 4 KiB allocation granule and the limit, skips of
// oversized messages, accessor calls; the real reader's (arena, offset, len, cap) after every
// operation is compared with the heap model.
func genHeap(r *rand.Rand, id string) *Case {
	c := baseCase(id, "heap")
	c.Extra["direct"] = "heap"
	c.L = []int{64, 4096, 5000, 8192, 100000}[r.Intn(5)]
	sizes := []int{0, 1, 2, 10, 100, 1000, 3000, 4095, 4096, 4097, 5000, 8191, 8192}
	n := 1 + r.Intn(14)
	var ops []string
	for i := 0; i < n; i++ {
		switch r.Intn(6) {
		case 0:
			ops = append(ops, "s"+strconv.Itoa(c.L+1+r.Intn(3*c.L)))
		case 1, 2:
			ops = append(ops, "b"+strconv.Itoa(r.Intn(12)))
		default:
			sz := sizes[r.Intn(len(sizes))]
			if sz > c.L {
				sz = c.L - r.Intn(3)
			}
			ops = append(ops, "r"+strconv.Itoa(sz))
		}
	}
	c.Extra["ops"] = strings.Join(ops, ",")
	return c
}

// genRetain (C18): callbacks keep the query texts, parameter values, passwords and COPY
// payloads they receive (zero-copy views) while later traffic of every size passes: messages
// around the granule and the limit, oversized messages (skipped in chunks), failed batches.
func genRetain(r *rand.Rand, id string) *Case {
	c := baseCase(id, "retain")
	c.L = []int{128, 256, 4096, 8192}[r.Intn(4)]
	L := c.L
	c.Auth = r.Intn(3) == 0
	in := plainStartup("user" + strconv.Itoa(r.Intn(9)))
	if c.Auth {
		in = append(in, msgPassword("ok-secret-"+strconv.Itoa(r.Intn(1000)))...)
	}
	c.CX = r.Intn(2) == 0 // callbacks also look at the client parameters of their context (views into the start-up packet)
	n := 3 + r.Intn(10)
	pad := func(q string, size int) string {
		if size > len(q)+2 {
			q += "/"
			for len(q)+1 < size {
				q += "p"
			}
		}
		return q
	}
	for i := 0; i < n; i++ {
		size := []int{0, 0, L / 2, L - 1, L, 4000, 4096}[r.Intn(7)]
		if size > L {
			size = L
		}
		switch r.Intn(9) {
		case 0, 1:
			in = append(in, msgQuery(pad(probeQuery("R"+strconv.Itoa(i), 0), size))...)
		case 2:
			in = append(in, msgParse(pick(r, namePool), pad("t/25/r:t"+hxs("x")+";c:"+hxs("OK")+"/ok", size), nil)...)
		case 3:
			in = append(in, msgParse("", "!B"+hxs("refused "+strconv.Itoa(i)), nil)...)
		case 4:
			name := pick(r, namePool)
			ps := []bindParam{{v: randBytes(r, 1+r.Intn(20), false)}, {v: []byte("param-" + strconv.Itoa(i))}}
			in = append(in, msgBind(name, name, nil, ps[:1+r.Intn(2)], nil)...)
			in = append(in, msgExecute(name, 0)...)
			if r.Intn(3) == 0 {
				// the portal (or its statement) is closed afterwards: what the statement function was given stays intact
				in = append(in, msgClose([]byte("PS")[r.Intn(2)], name)...)
			}
		case 5:
			in = append(in, msgSync()...)
		case 6, 7:
			// oversized message, skipped in chunks of L; sizes that are not multiples of L
			sz := L + 1 + r.Intn(2*L+5)
			body := make([]byte, sz)
			for j := range body {
				body[j] = 'Y'
			}
			in = append(in, typed([]byte("QPBd")[r.Intn(4)], body)...)
		case 8:
			if L >= 8192 && r.Intn(2) == 0 {
				// two portals whose parameter values live in message bodies of more than 4 KiB; the second
				// body is not larger than the first; both are executed afterwards
				in = append(in, msgParse("big", "t/25/s:25,0;r:t"+hxs("x")+";c:"+hxs("OK")+"/ok", nil)...)
				p1 := bytes.Repeat([]byte("first-"+strconv.Itoa(i)+"."), 1)
				for len(p1) < 5000+r.Intn(1500) {
					p1 = append(p1, byte('a'+len(p1)%26))
				}
				p2 := []byte("second-" + strconv.Itoa(i) + ".")
				for len(p2) < 4200+r.Intn(700) {
					p2 = append(p2, byte('A'+len(p2)%26))
				}
				in = append(in, msgBind("pa", "big", nil, []bindParam{{v: p1}}, nil)...)
				in = append(in, msgBind("pb", "big", nil, []bindParam{{v: p2}}, nil)...)
				if r.Intn(2) == 0 {
					in = append(in, msgQuery(pad(probeQuery("BIGQ"+strconv.Itoa(i), 0), 4300))...)
				}
				in = append(in, msgExecute("pa", 0)...)
				in = append(in, msgExecute("pb", 0)...)
				in = append(in, msgSync()...)
				break
			}
			q := "t//g:0;K3;c:" + hxs("COPY") + "/ok"
			if len(q)+1 <= L {
				in = append(in, msgQuery(q)...)
				in = append(in, msgCopyData(randBytes(r, 1+r.Intn(30), false))...)
				in = append(in, msgCopyData([]byte("second chunk"))...)
				in = append(in, msgCopyDone()...)
			}
		}
	}
	in = append(in, msgSync()...)
	c.In = in
	c.Cuts = randCuts(r, len(in))
	return c
}

func init() {
	generators["heap"] = genHeap
	generators["retain"] = genRetain
}

// ---- C09: row values -------------------------------------------------------------------------

var valueLetters = []byte("bsiltvyzufd") // float types last: binary format only

// genGoodVal: a value the column's codec accepts, boundary-heavy; "n"/"N"/"V" are the NULL forms.
func genGoodVal(r *rand.Rand, letter byte, big bool) string {
	switch r.Intn(9) {
	case 0:
		return "n"
	case 1:
		return "N"
	case 2:
		return "V"
	}
	bytesOf := func() []byte {
		switch r.Intn(8) {
		case 0:
			return []byte{}
		case 1:
			return []byte{0}
		case 2:
			return []byte{0xff, 0xff, 0xff, 0xff}
		case 3:
			if big {
				return randBytes(r, 65530+r.Intn(12), false)
			}
			return randBytes(r, 250+r.Intn(10), false)
		case 4:
			return []byte("\\x00'\"\n\t,é")
		case 5:
			// sizes around the writer's 64-byte scratch array (and around half of it: bytea in text format)
			return randBytes(r, []int{29, 30, 31, 32, 33, 59, 60, 61, 62, 63, 64, 65, 66, 127, 128, 129}[r.Intn(16)], false)
		}
		return randBytes(r, r.Intn(9), false)
	}
	switch letter {
	case 'b':
		return "b" + strconv.Itoa(r.Intn(2))
	case 's':
		return "i" + strconv.FormatInt([]int64{0, 1, -1, 32767, -32768, 255, 256, -129, int64(r.Intn(65536) - 32768)}[r.Intn(9)], 10)
	case 'i':
		return "i" + strconv.FormatInt([]int64{0, 1, -1, 2147483647, -2147483648, 65536, -65537, 16777216, int64(int32(r.Uint32()))}[r.Intn(9)], 10)
	case 'l':
		return "i" + strconv.FormatInt([]int64{0, 1, -1, 9223372036854775807, -9223372036854775808, 4294967296, -4294967297, 1000000000000000000, int64(r.Uint64())}[r.Intn(9)], 10)
	case 't', 'v', 'z':
		return "t" + hex.EncodeToString(bytesOf())
	case 'y':
		return "y" + hex.EncodeToString(bytesOf())
	case 'u':
		switch r.Intn(4) {
		case 0:
			return "u00000000000000000000000000000000"
		case 1:
			return "uffffffffffffffffffffffffffffffff"
		}
		return "u" + hex.EncodeToString(randBytes(r, 16, false))
	case 'f':
		bits := []uint32{0, 0x80000000, 0x3f800000, 0x7f800000, 0xff800000, 0x7fc00000, 1, 0x7f7fffff, r.Uint32()}
		return "f" + hex.EncodeToString(be32(bits[r.Intn(len(bits))]))
	case 'd':
		bits := []uint64{0, 0x8000000000000000, 0x3ff0000000000000, 0x7ff0000000000000, 0xfff0000000000000, 0x7ff8000000000000, 1, 0x7fefffffffffffff, r.Uint64()}
		b := bits[r.Intn(len(bits))]
		return "d" + hex.EncodeToString(append(be32(uint32(b>>32)), be32(uint32(b))...))
	}
	return "n"
}

// genValues (C09): one statement returning 0..5 rows over 1..6 columns of every supported
// type, fetched by a simple query (text) or through Parse/Bind/Describe/Execute with result
// formats none / one for all / one per column; values at the type boundaries, empty and
// 64 KiB-crossing strings, the three NULL forms in every position.
func genValues(r *rand.Rand, id string) *Case {
	c := baseCase(id, "values")
	in := plainStartup("u")
	simple := r.Intn(3) == 0
	big := r.Intn(12) == 0
	if big {
		c.L = 1 << 20
	}
	ncols := 1 + r.Intn(6)
	var rf []uint16
	if !simple {
		switch r.Intn(4) {
		case 0:
		case 1:
			rf = []uint16{uint16(r.Intn(2))}
		default:
			rf = make([]uint16, ncols)
			for i := range rf {
				rf[i] = uint16(r.Intn(2))
			}
		}
	}
	rfmt := func(i int) uint16 {
		switch len(rf) {
		case 0:
			return 0
		case 1:
			return rf[0]
		}
		return rf[i]
	}
	letters := make([]byte, ncols)
	colspec := make([]string, ncols)
	fmts := make([]string, ncols)
	for i := range letters {
		pool := valueLetters
		if rfmt(i) == 0 {
			pool = valueLetters[:len(valueLetters)-2] // float text format is outside the Lean model
		}
		letters[i] = pool[r.Intn(len(pool))]
		colspec[i] = string(letters[i])
		if r.Intn(6) == 0 {
			colspec[i] += "~"
		}
		fmts[i] = strconv.Itoa(int(rfmt(i)))
	}
	nrows := r.Intn(6)
	var ops, rows []string
	for k := 0; k < nrows; k++ {
		vals := make([]string, ncols)
		allNull := r.Intn(10) == 0
		for i := range vals {
			if allNull {
				vals[i] = []string{"n", "N", "V"}[r.Intn(3)]
			} else {
				vals[i] = genGoodVal(r, letters[i], big)
			}
		}
		rows = append(rows, strings.Join(vals, ","))
		ops = append(ops, "r:"+strings.Join(vals, ","))
	}
	ops = append(ops, "c:"+hxs("SELECT "+strconv.Itoa(nrows)))
	script := strings.Join(colspec, ",") + "//" + strings.Join(ops, ";") + "/ok"
	if simple {
		in = append(in, msgQuery(script)...)
	} else if r.Intn(3) == 0 && ncols > 0 {
		// two portals over one statement, alive at the same time, with opposite result formats:
		// the one bound FIRST is described and executed after the second Bind
		other := make([]uint16, ncols)
		for i := range other {
			other[i] = 1 - rfmt(i)
			if letters[i] == 'f' || letters[i] == 'd' {
				other[i] = 1 // float text format is outside the Lean model
			}
		}
		in = append(in, msgParse("s", script, nil)...)
		in = append(in, msgBind("first", "s", nil, nil, rf)...)
		in = append(in, msgBind("second", "s", nil, nil, other)...)
		in = append(in, msgDescribe('P', "first")...)
		in = append(in, msgExecute("first", 0)...)
		in = append(in, msgSync()...)
	} else {
		in = append(in, msgParse("", script, nil)...)
		in = append(in, msgBind("", "", nil, nil, rf)...)
		in = append(in, msgDescribe('P', "")...)
		in = append(in, msgExecute("", 0)...)
		in = append(in, msgSync()...)
	}
	c.In = in
	if !big {
		c.Cuts = randCuts(r, len(in))
	}
	c.Extra["vcols"] = "=" + string(letters)
	c.Extra["vfmt"] = "=" + strings.Join(fmts, ",")
	c.Extra["vrows"] = "=" + strings.Join(rows, "|")
	return c
}

func init() { generators["values"] = genValues }

// genWfOnce (C02): "a failed or abandoned write never leaves partial bytes that corrupt the next message".
// Sessions of the values / simple / paramsd / session campaigns, biased towards messages above 64 KiB, in which
// exactly ONE Write call of the transport fails (`wf1=k`) and the connection keeps working afterwards. The
// model has no transient faults (its transport fails for good): `nomodel=1`, only the strict backend grammar
// is evaluated, on everything the server managed to write.
func genWfOnce(r *rand.Rand, id string) *Case {
	var c *Case
	switch k := r.Intn(10); {
	case k < 4:
		// one statement returning rows with values above 64 KiB, then a second query on the same connection
		c = baseCase(id, "wfonce")
		c.L = 1 << 21
		in := plainStartup("u")
		ncols := 1 + r.Intn(3)
		cols := make([]string, ncols)
		for i := range cols {
			cols[i] = "t"
		}
		var ops []string
		nrows := 1 + r.Intn(3)
		for j := 0; j < nrows; j++ {
			vals := make([]string, ncols)
			for i := range vals {
				n := []int{10, 61, 64, 65531, 65536, 70000, 131072, 200000}[r.Intn(8)]
				vals[i] = "t" + hex.EncodeToString(bytes.Repeat([]byte{byte('a' + r.Intn(26))}, n))
			}
			ops = append(ops, "r:"+strings.Join(vals, ",")+"?")
		}
		ops = append(ops, "c:"+hxs("SELECT "+strconv.Itoa(nrows)))
		in = append(in, msgQuery(strings.Join(cols, ",")+"//"+strings.Join(ops, ";")+"/ok")...)
		in = append(in, msgQuery(probeQuery("after", 0))...)
		c.In = in
	case k < 6:
		c = genValues(r, id)
	case k < 8:
		c = generators["simple"](r, id)
	case k < 9:
		c = generators["paramsd"](r, id)
	default:
		c = genSession(r, id)
	}
	c.Camp = "wfonce"
	c.WF = -1
	c.Extra["wf1"] = strconv.Itoa(r.Intn(14))
	c.Extra["nomodel"] = "1"
	for _, k := range []string{"xp", "xend", "xev"} {
		delete(c.Extra, k)
	}
	return c
}

func init() { generators["wfonce"] = genWfOnce }

// genTimes (C09): timestamp and date columns (outside the Lean model: nomodel=1) written from time.Time values in
// non-UTC zones, fetched in text and in binary format. The expected field bytes (`xrow`) are computed here,
// independently of the library: both types carry the WALL CLOCK of the value written, whatever its zone.
func genTimes(r *rand.Rand, id string) *Case {
	c := baseCase(id, "times")
	in := plainStartup("u")
	ncols := 1 + r.Intn(3)
	letters := make([]byte, ncols)
	for i := range letters {
		letters[i] = "me"[r.Intn(2)]
	}
	binary := r.Intn(2) == 0
	vals := make([]string, ncols)
	want := make([]string, ncols)
	pgEpoch := time.Date(2000, 1, 1, 0, 0, 0, 0, time.UTC)
	for i := range vals {
		sec := int64(946684800 + r.Intn(1500000000)) // 2000 .. 2047
		off := []int{0, 60, -60, 120, 330, -480, 765, -720, 840}[r.Intn(9)]
		vals[i] = "m" + strconv.FormatInt(sec, 10) + "_" + strconv.Itoa(off+10000)
		t := time.Unix(sec, 0).In(time.FixedZone("x", off*60))
		wall := time.Date(t.Year(), t.Month(), t.Day(), t.Hour(), t.Minute(), t.Second(), 0, time.UTC)
		switch {
		case letters[i] == 'm' && !binary:
			want[i] = hex.EncodeToString([]byte(wall.Format("2006-01-02 15:04:05")))
		case letters[i] == 'm':
			us := wall.Sub(pgEpoch).Microseconds()
			b := make([]byte, 8)
			for k := 0; k < 8; k++ {
				b[7-k] = byte(uint64(us) >> (8 * k))
			}
			want[i] = hex.EncodeToString(b)
		case !binary:
			want[i] = hex.EncodeToString([]byte(wall.Format("2006-01-02")))
		default:
			day := time.Date(wall.Year(), wall.Month(), wall.Day(), 0, 0, 0, 0, time.UTC)
			days := int32(day.Sub(pgEpoch).Hours() / 24)
			want[i] = hex.EncodeToString(be32(uint32(days)))
		}
	}
	cols := make([]string, ncols)
	for i := range cols {
		cols[i] = string(letters[i])
	}
	script := strings.Join(cols, ",") + "//r:" + strings.Join(vals, ",") + ";c:" + hxs("SELECT 1") + "/ok"
	if binary {
		in = append(in, msgParse("", script, nil)...)
		in = append(in, msgBind("", "", nil, nil, []uint16{1})...)
		in = append(in, msgExecute("", 0)...)
		in = append(in, msgSync()...)
	} else {
		in = append(in, msgQuery(script)...)
	}
	c.In = in
	c.Extra["nomodel"] = "1"
	c.Extra["xrow"] = strings.Join(want, ",")
	return c
}

func init() { generators["times"] = genTimes }
