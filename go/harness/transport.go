package main

import (
	"errors"
	"io"
	"net"
	"sync"
	"time"
)

// Conn is the in-memory server-side connection handed to wire.Server.Serve.
// It delivers the client's bytes in exactly the prescribed segments, knows
// when the server is blocked in Read with nothing pending, records every Write
// call, and injects read / write faults.
type Conn struct {
	rtimeout bool // read faults are of the timeout kind
	mu       sync.Mutex
	cond     *sync.Cond

	segs      [][]byte
	cur       []byte
	delivered int

	rfail      bool // once the input is exhausted reads fail instead of blocking
	clientDone bool // the client closed its side: reads return EOF
	waiting    bool // the server is blocked in Read with nothing pending
	closed     bool // the server called Close

	writes  [][]byte
	wat     []int // bytes delivered when each write happened
	nwrites int
	wfail   int // index of the first failing Write call, -1: none
	wonce   int // index of the ONE Write call that fails (those after it succeed again), -1: none
	closes  int
	name    string // remote address reported to the server (distinguishes connections)
}

var errReadFault = errors.New("verif: read fault")

// errReadTimeout: the same fault as a net.Error of the timeout kind (an absolute deadline that has expired,
// TCP keep-alive / user timeout): every later Read fails the same way, nobody re-arms it
type timeoutErr struct{}

func (timeoutErr) Error() string   { return "verif: read fault" }
func (timeoutErr) Timeout() bool   { return true }
func (timeoutErr) Temporary() bool { return true }

var errReadTimeout net.Error = timeoutErr{}
var errWriteFault = errors.New("verif: write fault")

func NewConn(segs [][]byte, rfail bool, wfail int) *Conn {
	c := &Conn{segs: segs, rfail: rfail, wfail: wfail, wonce: -1}
	c.cond = sync.NewCond(&c.mu)
	return c
}

func (c *Conn) Read(p []byte) (int, error) {
	c.mu.Lock()
	defer c.mu.Unlock()
	for {
		if c.closed {
			return 0, net.ErrClosed
		}
		if len(p) == 0 {
			return 0, nil
		}
		if len(c.cur) > 0 {
			n := copy(p, c.cur)
			c.cur = c.cur[n:]
			return n, nil
		}
		if len(c.segs) > 0 {
			c.cur = c.segs[0]
			c.segs = c.segs[1:]
			c.delivered += len(c.cur)
			continue
		}
		if c.rfail {
			if c.rtimeout {
				return 0, errReadTimeout
			}
			return 0, errReadFault
		}
		if c.clientDone {
			return 0, io.EOF
		}
		c.waiting = true
		c.cond.Broadcast()
		c.cond.Wait()
		c.waiting = false
	}
}

func (c *Conn) Write(p []byte) (int, error) {
	c.mu.Lock()
	defer c.mu.Unlock()
	if c.closed {
		return 0, net.ErrClosed
	}
	idx := c.nwrites
	c.nwrites++
	if c.wfail >= 0 && idx >= c.wfail {
		return 0, errWriteFault
	}
	if idx == c.wonce {
		return 0, errWriteFault
	}
	c.writes = append(c.writes, append([]byte(nil), p...))
	c.wat = append(c.wat, c.delivered)
	return len(p), nil
}

func (c *Conn) Close() error {
	c.mu.Lock()
	defer c.mu.Unlock()
	c.closes++
	c.closed = true
	c.cond.Broadcast()
	return nil
}

type addr string

func (a addr) Network() string { return "verif" }
func (a addr) String() string  { return string(a) }

func (c *Conn) LocalAddr() net.Addr { return addr("server") }
func (c *Conn) RemoteAddr() net.Addr {
	if c.name != "" {
		return addr(c.name)
	}
	return addr("client")
}
func (c *Conn) SetDeadline(t time.Time) error      { return nil }
func (c *Conn) SetReadDeadline(t time.Time) error  { return nil }
func (c *Conn) SetWriteDeadline(t time.Time) error { return nil }

// WaitQuiescent blocks until the server is blocked in Read with nothing
// pending or has closed the connection. It reports whether the server closed,
// and false,false on timeout.
func (c *Conn) WaitQuiescent(timeout time.Duration) (closed bool, ok bool) {
	deadline := time.Now().Add(timeout)
	c.mu.Lock()
	defer c.mu.Unlock()
	for !c.waiting && !c.closed {
		if time.Now().After(deadline) {
			return false, false
		}
		// poll with a short sleep: cond.Wait has no timeout
		c.mu.Unlock()
		time.Sleep(50 * time.Microsecond)
		c.mu.Lock()
	}
	return c.closed, true
}

// Hangup makes every blocked and future Read return EOF.
func (c *Conn) Hangup() {
	c.mu.Lock()
	c.clientDone = true
	c.cond.Broadcast()
	c.mu.Unlock()
}

// Listener hands out prepared connections.
type Listener struct {
	ch     chan net.Conn
	once   sync.Once
	closed chan struct{}
}

func NewListener() *Listener {
	return &Listener{ch: make(chan net.Conn, 64), closed: make(chan struct{})}
}

func (l *Listener) Accept() (net.Conn, error) {
	select {
	case c := <-l.ch:
		return c, nil
	case <-l.closed:
		return nil, net.ErrClosed
	}
}

func (l *Listener) Close() error {
	l.once.Do(func() { close(l.closed) })
	return nil
}

func (l *Listener) Addr() net.Addr { return addr("listener") }
