package main

import (
	"encoding/hex"
	"math/rand"
	"strconv"
	"strings"
	"sync"
	"time"

	wire "github.com/jeroenrinzema/psql-wire"
)

// Multi-connection cases: Extra["conns"]=k, the k client streams are joined by "/" in the
// `min` field, `pc` holds per connection the number of bytes delivered in phase 1.
// Schedule "seq": phase 1 of every connection in order (each until the server is quiescent),
// then phase 2 of every connection in order — connection i's second phase runs after every
// other connection has started. Schedule "par": all connections concurrently with random
// pacing. All connections are served by ONE server (shared configuration, shared handlers).

func runMulti(c *Case) *Result {
	ins := strings.Split(c.Extra["min"], "/")
	pcs := strings.Split(c.Extra["pc"], "/")
	k := len(ins)
	sessions := make([]*session, k)
	conns := make([]*Conn, k)
	inputs := make([][]byte, k)
	for i := range ins {
		inputs[i], _ = hex.DecodeString(ins[i])
	}
	// one server, one scripted handler set; events are attributed to a connection through the
	// remote address the library puts into the context
	byAddr := sync.Map{}
	shared := &session{log: &evlog{}, cx: c.CX}
	_ = shared
	router := &session{log: &evlog{}, cx: c.CX}
	srv, userMap, err := buildServerMulti(c, router, &byAddr)
	if err != nil {
		return &Result{End: "cfgerr:" + err.Error()}
	}
	before := renderKV(userMap)
	l := NewListener()
	served := make(chan error, 1)
	go func() { served <- srv.Serve(l) }()
	ends := make([]string, k)
	deliver := func(i int, data []byte) {
		conns[i].mu.Lock()
		conns[i].segs = append(conns[i].segs, data)
		conns[i].cond.Broadcast()
		conns[i].mu.Unlock()
	}
	released := false
	wait := func(i int) {
		// wait until the server has consumed everything and blocks again (or closed)
		deadline := time.Now().Add(hangTimeout())
		for {
			conns[i].mu.Lock()
			idle := (conns[i].waiting && len(conns[i].segs) == 0 && len(conns[i].cur) == 0) || conns[i].closed ||
				(!released && sessions[i].holding.Load() && len(conns[i].segs) == 0) // parked in a held validator
			closed := conns[i].closed
			conns[i].mu.Unlock()
			if idle {
				if closed {
					ends[i] = "c"
				} else {
					ends[i] = "w"
				}
				return
			}
			if time.Now().After(deadline) {
				ends[i] = "hang"
				hangsSeen++ // the adaptive bound of run.go applies to multi-connection cases as well
				return
			}
			time.Sleep(30 * time.Microsecond)
		}
	}
	for i := 0; i < k; i++ {
		sessions[i] = &session{log: &evlog{}, cx: c.CX, nmw: len(c.MW)}
		conns[i] = NewConn(nil, false, -1)
		conns[i].name = "client" + strconv.Itoa(i)
		byAddr.Store(conns[i].name, sessions[i])
		if c.Extra["hold"] == "1" {
			sessions[i].holdCh = make(chan struct{})
		}
	}
	// offer hands a connection to the accept loop; a server that does not take it (its accept loop is busy with
	// another connection's handshake, say) leaves the connection unserved: `hang`
	offer := func(i int) bool {
		select {
		case l.ch <- conns[i]:
			return true
		case <-time.After(hangTimeout()):
			ends[i] = "hang"
			hangsSeen++
			return false
		}
	}
	if c.Extra["sched"] == "par" {
		var wg sync.WaitGroup
		for i := 0; i < k; i++ {
			offer(i)
		}
		for i := 0; i < k; i++ {
			wg.Add(1)
			go func(i int) {
				defer wg.Done()
				r := rand.New(rand.NewSource(int64(i)*7919 + int64(len(inputs[i]))))
				data := inputs[i]
				for len(data) > 0 {
					n := 1 + r.Intn(len(data))
					if n > 64 {
						n = 1 + r.Intn(64)
					}
					deliver(i, data[:n])
					data = data[n:]
					if r.Intn(3) == 0 {
						time.Sleep(time.Duration(r.Intn(50)) * time.Microsecond)
					}
				}
				wait(i)
			}(i)
		}
		wg.Wait()
	} else {
		for i := 0; i < k; i++ {
			n, _ := strconv.Atoi(pcs[i])
			if n > len(inputs[i]) {
				n = len(inputs[i])
			}
			if !offer(i) {
				continue
			}
			deliver(i, inputs[i][:n])
			wait(i)
			if i == 0 && c.Extra["early"] == "1" {
				// the client hangs up; wait until the server has released the connection
				conns[0].Hangup()
				deadline := time.Now().Add(hangTimeout())
				for time.Now().Before(deadline) {
					conns[0].mu.Lock()
					cl := conns[0].closed
					conns[0].mu.Unlock()
					if cl {
						break
					}
					time.Sleep(30 * time.Microsecond)
				}
			}
		}
		if c.Extra["hold"] == "1" {
			// every connection has had its turn while the held validators were busy: let them answer
			released = true
			for i := 0; i < k; i++ {
				close(sessions[i].holdCh)
			}
			for i := 0; i < k; i++ {
				wait(i)
			}
		}
		for i := 0; i < k; i++ {
			n, _ := strconv.Atoi(pcs[i])
			if n < len(inputs[i]) && ends[i] != "hang" {
				deliver(i, inputs[i][n:])
				wait(i)
			}
		}
	}
	r := &Result{}
	outs := make([]string, k)
	evs := make([]string, k)
	for i := 0; i < k; i++ {
		conns[i].mu.Lock()
		outs[i] = canonOut(conns[i].writes)
		conns[i].mu.Unlock()
		evs[i] = strings.Join(sessions[i].log.snapshot(), ";")
	}
	for i := 0; i < k; i++ {
		conns[i].Hangup()
	}
	time.Sleep(200 * time.Microsecond)
	srv.Close()
	<-served
	// C15 on the real code alone: every connection's transcript and callback trace must equal what
	// the same client traffic produces on a server that serves it alone (same configuration)
	r.Solo = "ok"
	for i := 0; i < k; i++ {
		sc := &Case{ID: c.ID, Camp: c.Camp, L: c.L, Auth: c.Auth, TLS: c.TLS, Ver: c.Ver, GP: c.GP, GPNil: c.GPNil,
			MW: c.MW, Term: c.Term, In: inputs[i], WF: -1, CX: c.CX, Extra: map[string]string{}}
		sr := RunCase(sc)
		if canonOut(sr.Out) != outs[i] || strings.Join(sr.Ev, ";") != evs[i] {
			r.Solo = "diff:" + strconv.Itoa(i)
			break
		}
	}
	r.MultiOut = strings.Join(outs, "/")
	r.MultiEv = strings.Join(evs, "/")
	r.End = strings.Join(ends, "/")
	r.Retain = "ok"
	for i := 0; i < k; i++ {
		if x := sessions[i].checkRetained(); x != "ok" {
			r.Retain = x
		}
	}
	if renderKV(userMap) == before {
		r.UserMap = "same"
	} else {
		r.UserMap = "changed"
	}
	return r
}

// buildServerMulti builds one server whose callbacks log into the session of the connection
// they run for (looked up by the remote address in the context).
func buildServerMulti(c *Case, router *session, byAddr *sync.Map) (*wire.Server, wire.Parameters, error) {
	router.route = func(addr string) *session {
		if v, ok := byAddr.Load(addr); ok {
			return v.(*session)
		}
		return router
	}
	return buildServer(c, router, nil)
}
