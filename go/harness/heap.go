package main

import (
	"bytes"
	"strconv"
	"strings"
	"unsafe"

	"github.com/jeroenrinzema/psql-wire/pkg/buffer"
)

// runHeap replays a sequence of reads / skips / accessor calls on the REAL buffer.Reader and
// reports, after every operation, where reader.Msg lives: arena index (in order of first
// appearance), offset inside the arena, length and capacity. Views returned by GetBytes are
// kept and re-checked at the end against private copies.
func runHeap(c *Case) []string {
	ops := strings.Split(c.Extra["ops"], ",")
	var stream []byte
	fill := byte(1)
	for _, op := range ops {
		if op == "" {
			continue
		}
		n, _ := strconv.Atoi(op[1:])
		switch op[0] {
		case 'r':
			stream = append(stream, be32(uint32(n+4))...)
			fallthrough
		case 's':
			for i := 0; i < n; i++ {
				stream = append(stream, fill)
			}
			fill++
			if fill == 0 {
				fill = 1
			}
		}
	}
	rd := buffer.NewReader(discardLogger, bytes.NewReader(stream), c.L)
	arenas := map[uintptr]int{}
	arenaCap := map[uintptr]int{}
	var keep [][]byte
	type view struct {
		v    []byte
		copy []byte
	}
	var views []view
	var ev []string
	layout := func() string {
		if rd.Msg == nil {
			return "nil"
		}
		cp := cap(rd.Msg)
		if cp == 0 {
			// an empty window at the very end of an arena has no address of its own
			return "-:0:0"
		}
		full := rd.Msg[:cp]
		keep = append(keep, full)
		var end uintptr
		if cp > 0 {
			end = uintptr(unsafe.Pointer(unsafe.SliceData(full))) + uintptr(cp)
		} else {
			end = uintptr(unsafe.Pointer(unsafe.SliceData(full)))
		}
		idx, ok := arenas[end]
		if !ok {
			idx = len(arenas)
			arenas[end] = idx
			arenaCap[end] = cp // first sight of an arena: offset 0
		}
		// position inside the arena is given by the capacity (= distance to the arena's end)
		return strconv.Itoa(idx) + ":" + strconv.Itoa(len(rd.Msg)) + ":" + strconv.Itoa(cp)
	}
	for _, op := range ops {
		if op == "" {
			continue
		}
		n, _ := strconv.Atoi(op[1:])
		switch op[0] {
		case 'r':
			if _, err := rd.ReadUntypedMsg(); err != nil {
				ev = append(ev, "err")
				continue
			}
		case 's':
			if err := rd.Slurp(n); err != nil {
				ev = append(ev, "err")
				continue
			}
		case 'b':
			v, err := rd.GetBytes(n)
			if err == nil {
				views = append(views, view{v: v, copy: append([]byte(nil), v...)})
			}
		}
		ev = append(ev, layout())
	}
	ok := "views=ok"
	for _, vw := range views {
		if !bytes.Equal(vw.v, vw.copy) {
			ok = "views=corrupt"
		}
	}
	return append(ev, ok)
}
