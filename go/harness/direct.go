package main

import (
	"strconv"

	wire "github.com/jeroenrinzema/psql-wire"
)

// runDirect calls a library function directly (no connection). A panic is deliberately
// not recovered: the child process dies and the parent records the crash.
func runDirect(c *Case, kind string) *Result {
	r := &Result{End: "c", Retain: "ok", UserMap: "same"}
	switch kind {
	case "params":
		ps := wire.ParseParameters(string(c.In))
		z := "1"
		for _, p := range ps {
			if p != 0 {
				z = "0"
			}
		}
		r.Ev = []string{"n=" + strconv.Itoa(len(ps)), "z=" + z}
	default:
		r.End = "cfgerr:unknown-direct"
	}
	return r
}
