package main

import (
	"bytes"
	"strconv"
	"strings"

	"github.com/jeroenrinzema/psql-wire/pkg/buffer"

	wire "github.com/jeroenrinzema/psql-wire"
)

// runDirect calls a library function directly (no connection). A panic is deliberately
// not recovered: the child process dies and the parent records the crash.
func runDirect(c *Case, kind string) *Result {
	r := &Result{End: "c", Retain: "ok", UserMap: "same"}
	if kind == "close" {
		return runClose(c)
	}
	switch kind {
	case "params":
		ps := wire.ParseParameters(string(c.In))
		z := "1"
		for _, p := range ps {
			if p != 0 {
				z = "0"
			}
		}
		r.Ev = []string{"n=" + strconv.Itoa(len(ps)), "z=" + z}
	case "accessor":
		rd := buffer.NewReader(discardLogger, bytes.NewReader(nil), 0)
		rd.Msg = append([]byte{}, c.In...)
		var ev []string
		for _, op := range strings.Split(c.Extra["ops"], ",") {
			if op == "" {
				continue
			}
			switch {
			case op == "s":
				v, err := rd.GetString()
				if err != nil {
					ev = append(ev, "-")
				} else {
					ev = append(ev, "+"+hx([]byte(v)))
				}
			case op == "u2":
				v, err := rd.GetUint16()
				if err != nil {
					ev = append(ev, "-")
				} else {
					ev = append(ev, "+"+hx(be16(v)))
				}
			case op == "u4":
				v, err := rd.GetUint32()
				if err != nil {
					ev = append(ev, "-")
				} else {
					ev = append(ev, "+"+hx(be32(v)))
				}
			case strings.HasPrefix(op, "b"):
				n, _ := strconv.Atoi(op[1:])
				v, err := rd.GetBytes(n)
				if err != nil {
					ev = append(ev, "-")
				} else {
					ev = append(ev, "+"+hx(v))
				}
			}
		}
		ev = append(ev, "rem="+hx(rd.Msg))
		r.Ev = ev
	case "errnil":
		// C17: a nil error handed to ErrorCode is reported as an internal FATAL error, never as an
		// empty message
		var buf bytes.Buffer
		w := buffer.NewWriter(discardLogger, &buf)
		if err := wire.ErrorCode(w, nil); err != nil {
			r.Ev = []string{"err"}
		}
		b := buf.Bytes()
		for len(b) >= 5 {
			n := int(b[1])<<24 | int(b[2])<<16 | int(b[3])<<8 | int(b[4])
			if n < 4 || len(b) < 1+n {
				break
			}
			r.Out = append(r.Out, append([]byte(nil), b[:1+n]...))
			b = b[1+n:]
		}
		if len(b) > 0 {
			r.Out = append(r.Out, append([]byte(nil), b...))
		}
		for range r.Out {
			r.At = append(r.At, 0)
		}
	case "heap":
		r.Ev = runHeap(c)
	default:
		r.End = "cfgerr:unknown-direct"
	}
	return r
}
