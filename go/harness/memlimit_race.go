//go:build race

package main

// the race detector's shadow memory needs a very large address space: no bound
func capMemory() {}
