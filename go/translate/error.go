// The part of pwtranslate that is specific to the ErrorResponse builder of /repo/error.go (root package
// `wire`): `writeErrorResponse`, `ErrorCode`, and `readyForQuery` of handshake.go which ErrorCode calls.
//
//   - the generated code runs on the world of pkg/buffer (Pw/Go/Rt.lean, `World`/`Out`/`Err`): a parameter
//     of type `*buffer.Writer` is not a Lean parameter, it denotes the one writer of the world, and a method
//     call on it goes to the definition of Trans.lean (`Trans.Writer_Start` …);
//   - a parameter of type `error` is a value handed in by the caller (`ErrArg`, Pw/Go/RtError.lean).  The
//     only thing the translated code may do with it is `psqlerr.Flatten(err)` (the external `flattenExt`:
//     the flattened description is a field of the value) or pass it on to another translated function;
//     every other use is "untranslatable".  Once the variable is assigned (`err = writeErrorResponse(…)`)
//     it is an ordinary `Option Err` (allowed at the top level of the function only);
//   - `psqlerr.Error` is the structure `ErrDesc`, `*psqlerr.Source` is `Option ErrSource`; a field read
//     through the pointer is a checked operation (`derefPtr`: nil dereference = panic);
//   - `strconv.FormatInt(x, 10)` and `strconv.Itoa(x)` are `formatInt10 x`.
//
// Everything else goes through the general scheme of main.go; whatever neither handles lands in
// `TransError.untranslatable`.
package main

import (
	"fmt"
	"go/ast"
	"go/types"
	"strings"
)

const errorsPkg = "github.com/jeroenrinzema/psql-wire/errors"

func isStringType(ty types.Type) bool {
	b, ok := ty.Underlying().(*types.Basic)
	return ok && b.Info()&types.IsString != 0 && b.Kind() != types.UntypedString
}

func namedIn(ty types.Type, pkg, name string) bool {
	n, ok := ty.(*types.Named)
	return ok && n.Obj().Pkg() != nil && n.Obj().Pkg().Path() == pkg && n.Obj().Name() == name
}

func isWriterPtr(ty types.Type) bool {
	p, ok := ty.(*types.Pointer)
	return ok && namedIn(p.Elem(), bufferPkg, "Writer")
}

// errType: Lean types of the struct values error.go reads ("" = not one of them)
func (t *tr) errType(ty types.Type) string {
	switch {
	case namedIn(ty, errorsPkg, "Error"):
		return "ErrDesc"
	case namedIn(ty, errorsPkg, "Source"):
		return "ErrSource"
	}
	if p, ok := ty.(*types.Pointer); ok && namedIn(p.Elem(), errorsPkg, "Source") {
		return "Option ErrSource"
	}
	return ""
}

func (t *tr) objOf(e *ast.Ident) types.Object {
	if o := t.info.Defs[e]; o != nil {
		return o
	}
	return t.info.Uses[e]
}

// errParam: a parameter of type *buffer.Writer is the writer of the world (true = no Lean parameter);
// a parameter of type `error` is registered as an `ErrArg`
func (t *tr) errParam(n *ast.Ident, ty types.Type) bool {
	obj := t.objOf(n)
	if isWriterPtr(ty) {
		t.writerVars[obj] = true
		return true
	}
	if isError(ty) {
		t.errArgs[obj] = true
	}
	return false
}

// errIdentUse: an identifier read as a value
func (t *tr) errIdentUse(e *ast.Ident) {
	obj := t.objOf(e)
	if t.errArgs[obj] {
		fail("use of the caller's error value %s other than psqlerr.Flatten(%s)", e.Name, e.Name)
	}
	if t.writerVars[obj] {
		fail("the writer %s used as a value", e.Name)
	}
}

// errAssigned: an assignment to a local; an `ErrArg` variable becomes an ordinary error variable
func (t *tr) errAssigned(l *ast.Ident, depth int) {
	obj := t.objOf(l)
	if t.writerVars[obj] {
		fail("assignment to the writer %s", l.Name)
	}
	if t.errArgs[obj] {
		if depth != 1 || len(t.loopStack) > 0 {
			fail("assignment to the caller's error value %s inside a branch or loop", l.Name)
		}
		delete(t.errArgs, obj)
	}
}

// errSelector: a field of a struct value (`desc.Hint`) or read through a pointer (`desc.Source.File`)
func (t *tr) errSelector(e *ast.SelectorExpr, p *pre) (string, bool) {
	sel := t.info.Selections[e]
	if sel == nil || sel.Kind() != types.FieldVal {
		return "", false
	}
	if len(sel.Index()) != 1 {
		fail("field %s reached through an embedded struct", t.src(e))
	}
	switch t.errType(t.typeOf(e.X)) {
	case "ErrDesc", "ErrSource":
		return t.expr(e.X, p) + "." + e.Sel.Name, true
	case "Option ErrSource":
		x := t.expr(e.X, p)
		v := t.fresh()
		p.add(fmt.Sprintf("%s (derefPtr %s) fun %s =>", t.chk(), x, v))
		return v + "." + e.Sel.Name, true
	}
	return "", false
}

// calledFunc: the function or method object a call expression invokes (nil for conversions, builtins,
// function values)
func (t *tr) calledFunc(c *ast.CallExpr) *types.Func {
	switch f := c.Fun.(type) {
	case *ast.Ident:
		fn, _ := t.info.Uses[f].(*types.Func)
		return fn
	case *ast.SelectorExpr:
		fn, _ := t.info.Uses[f.Sel].(*types.Func)
		return fn
	}
	return nil
}

// errCall: the calls specific to error.go; ok=false hands the call to the general scheme
func (t *tr) errCall(c *ast.CallExpr, fun string, p *pre) ([]string, bool) {
	fn := t.calledFunc(c)
	if fn == nil {
		return nil, false
	}
	sig := fn.Type().(*types.Signature)
	// a method of the world's writer
	if s, ok := c.Fun.(*ast.SelectorExpr); ok {
		if x, ok := s.X.(*ast.Ident); ok && t.writerVars[t.objOf(x)] {
			sel := t.info.Selections[s]
			if sel == nil || sel.Kind() != types.MethodVal || len(sel.Index()) != 1 {
				fail("%s is not a method of buffer.Writer itself", t.src(s))
			}
			lean := "Writer_" + fn.Name()
			if !t.bufFns[lean] {
				fail("buffer.Writer.%s is not among the functions of Trans.lean", fn.Name())
			}
			args := ""
			if t.needFuel[lean] {
				args, t.usesFuel = " fuel", true
			}
			for i, a := range c.Args {
				args += " " + t.typed(a, t.leanType(sig.Params().At(i).Type()), p)
			}
			r := t.fresh()
			p.add(fmt.Sprintf("(Trans.%s%s w).bind fun %s w =>", lean, args, r))
			return tupleProj(r, sig.Results().Len()), true
		}
	}
	if fn.Pkg() == nil {
		return nil, false
	}
	switch fn.Pkg().Path() + "." + fn.Name() {
	case errorsPkg + ".Flatten":
		a, ok := c.Args[0].(*ast.Ident)
		if !ok || !t.errArgs[t.objOf(a)] {
			fail("psqlerr.Flatten of something else than the caller's error value: %s", t.src(c))
		}
		return []string{"(flattenExt " + t.ident(a) + ")"}, true
	case "strconv.FormatInt":
		if b, ok := t.constOf(c.Args[1]); !ok || b != "10" {
			fail("strconv.FormatInt with a base other than the constant 10")
		}
		return []string{"(formatInt10 " + t.expr(c.Args[0], p) + ")"}, true
	case "strconv.Itoa":
		return []string{"(formatInt10 " + t.expr(c.Args[0], p) + ")"}, true
	}
	// a function of the root package translated before
	if sig.Recv() == nil && fn.Pkg().Path() == wirePkg {
		if !t.errFns[fn.Name()] {
			fail("call of %s, which is not translated (yet)", fn.Name())
		}
		args := ""
		if t.needFuel[fn.Name()] {
			args, t.usesFuel = " fuel", true
		}
		for i, a := range c.Args {
			pt := sig.Params().At(i).Type()
			idt, isIdent := a.(*ast.Ident)
			switch {
			case isWriterPtr(pt):
				if !isIdent || !t.writerVars[t.objOf(idt)] {
					fail("writer argument %s of %s", t.src(a), fn.Name())
				}
			case isError(pt):
				if !isIdent || !t.errArgs[t.objOf(idt)] {
					fail("error argument %s of %s is not the caller's error value", t.src(a), fn.Name())
				}
				args += " " + t.ident(idt)
			default:
				args += " " + t.typed(a, t.leanType(pt), p)
			}
		}
		r := t.fresh()
		p.add(fmt.Sprintf("(%s%s w).bind fun %s w =>", id(fn.Name()), args, r))
		return tupleProj(r, sig.Results().Len()), true
	}
	return nil, false
}

const wirePkg = "github.com/jeroenrinzema/psql-wire"

// typeLayout prints `def struct<Name>` for a struct type known through go/types only (an imported package)
func typeLayout(out *strings.Builder, pkg *types.Package, name string) string {
	obj := pkg.Scope().Lookup(name)
	if obj == nil {
		return "not found"
	}
	st, ok := obj.Type().Underlying().(*types.Struct)
	if !ok {
		return "not a struct"
	}
	var fs []string
	for i := 0; i < st.NumFields(); i++ {
		f := st.Field(i)
		n := f.Name()
		if f.Embedded() {
			n = ""
		}
		fs = append(fs, fmt.Sprintf("(%q, %q)", n, types.TypeString(f.Type(), types.RelativeTo(pkg))))
	}
	fmt.Fprintf(out, "def struct%s : List (String × String) := [%s]\n", name, strings.Join(fs, ", "))
	return ""
}

// translateError: error.go (+ readyForQuery) -> TransError.lean
func translateError(root string, bt *tr) string {
	fset, files, info := loadWire(root)
	t := &tr{fset: fset, info: info, needFuel: bt.needFuel, bufFns: bt.bufFns, errm: true, errFns: map[string]bool{}}
	var out strings.Builder
	out.WriteString("/- GENERATED by go/translate (-error) from error.go and handshake.go of /repo's working tree on every check run. Do not edit. -/\n")
	out.WriteString("import Pw.Generated.Trans\nimport Pw.Go.RtError\nset_option linter.unusedVariables false\nnamespace Pw.TransError\nopen Pw Pw.Go\n\n")
	var bad []string
	// the functions to translate, in dependency order, and the file each must be declared in
	want := []struct{ name, file string }{
		{"readyForQuery", "handshake.go"}, {"writeErrorResponse", "error.go"}, {"ErrorCode", "error.go"},
	}
	decls := funcDecls(files)
	for _, wn := range want {
		fd, ok := decls[wn.name]
		if !ok {
			bad = append(bad, wn.name+": not found")
			continue
		}
		if pos := fset.Position(fd.Pos()); pos.Filename != wn.file {
			bad = append(bad, wn.name+": declared in "+pos.Filename)
			continue
		}
		defs, e := t.function(fd)
		if e != "" {
			bad = append(bad, wn.name+": "+e)
			continue
		}
		t.errFns[wn.name] = true
		out.WriteString(defs + "\n")
	}
	// struct layouts of the flattened description (pinned in TieError.lean: RtError.lean's ErrDesc/ErrSource mirror them)
	var errs *types.Package
	for _, obj := range info.Uses {
		if pn, ok := obj.(*types.PkgName); ok && pn.Imported().Path() == errorsPkg {
			errs = pn.Imported()
		}
	}
	if errs == nil {
		bad = append(bad, "package errors: not imported")
	} else {
		for _, n := range []string{"Error", "Source"} {
			if e := typeLayout(&out, errs, n); e != "" {
				bad = append(bad, "errors."+n+": "+e)
			}
		}
	}
	var qs []string
	for _, b := range bad {
		qs = append(qs, fmt.Sprintf("%q", b))
	}
	fmt.Fprintf(&out, "\n/-- what the translator could not handle (TieError.lean demands this be empty) -/\ndef untranslatable : List String := [%s]\n", strings.Join(qs, ", "))
	out.WriteString("\nend Pw.TransError\n")
	return out.String()
}
