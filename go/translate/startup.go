// The part of pwtranslate that is specific to the start-up parsing of /repo/handshake.go (root package
// `wire`): `Server.readVersion`, `Server.readClientParameters`, and the protocol-version constants of
// pkg/types that handshake.go compares the version with.
//
//   - the generated code runs on the world of pkg/buffer (Pw/Go/Rt.lean, `World`/`Out`/`Err`): a parameter
//     of type `*buffer.Reader` is not a Lean parameter, it denotes the one reader of the world, and a method
//     call on it goes to the definition of Trans.lean (`Trans.Reader_GetString` …);
//   - the receiver `srv *Server` is not a Lean parameter either: the only use the translated functions may
//     make of it is `srv.logger.Debug(…)`, which is dropped (its arguments must be constants or
//     `slog.String(k, v)` of translatable expressions, so nothing with an effect is lost);
//   - a parameter of type `context.Context` is not a Lean parameter; the only thing that may be done with it
//     is `setClientParameters(ctx, m)`, whose result is `CtxR.withClient m` (Pw/Go/RtStartup.lean); a nil
//     context result is `CtxR.nil`;
//   - `Parameters` (a Go map from strings to strings) is `Params`: `make(Parameters)` = `mapEmpty`,
//     `m[k] = v` = `mapSet m k v`;
//   - `var x T` declares x with the zero value; `break` leaves the innermost loop (what follows the loop is
//     emitted at the place of the `break`).
//
// Everything else goes through the general scheme of main.go; whatever neither handles lands in
// `TransStartup.untranslatable`.
package main

import (
	"fmt"
	"go/ast"
	"go/token"
	"go/types"
	"sort"
	"strings"
)

const typesPkg = "github.com/jeroenrinzema/psql-wire/pkg/types"

// `meta` (a local of readClientParameters) is a keyword of Lean 4.33: renamed `meta_` like the other keywords
func init() { leanKeywords["meta"] = true }

type suState struct {
	fns map[string]bool // methods of Server translated so far
	// per function
	readerVars map[types.Object]bool // parameters of type *buffer.Reader: the world's reader
	ctxVars    map[types.Object]bool // parameters of type context.Context
	srvVar     types.Object          // the receiver
	brk        []func(int, *[]string)
}

func isServerPtr(ty types.Type) bool {
	p, ok := ty.(*types.Pointer)
	return ok && namedIn(p.Elem(), wirePkg, "Server")
}

func isParamsMap(ty types.Type) bool {
	m, ok := ty.Underlying().(*types.Map)
	return ok && isStringType(m.Key()) && isStringType(m.Elem())
}

// suType: Lean types of the values start-up parsing handles ("" = not one of them)
func (t *tr) suType(ty types.Type) string {
	switch {
	case isParamsMap(ty):
		return "Params"
	case isContext(ty):
		return "CtxR"
	}
	return ""
}

// suNil: `nil` in a context that wants one of the types above
func (t *tr) suNil(want string) string {
	if want == "CtxR" {
		return "CtxR.nil"
	}
	return ""
}

func (t *tr) suObj(e ast.Expr) types.Object {
	if idt, ok := e.(*ast.Ident); ok {
		return t.objOf(idt)
	}
	return nil
}

// suLogArg: an argument of a dropped logging call must be free of effects
func (t *tr) suLogArg(a ast.Expr) {
	if _, ok := t.constOf(a); ok {
		return
	}
	if c, ok := a.(*ast.CallExpr); ok && t.src(c.Fun) == "slog.String" {
		for _, x := range c.Args {
			q := &pre{}
			t.expr(x, q)
			if len(q.lines) > 0 {
				fail("checked operation inside a logging call: %s", t.src(a))
			}
		}
		return
	}
	fail("argument %s of a logging call", t.src(a))
}

// suCall: the calls specific to start-up parsing; ok=false hands the call to the general scheme
func (t *tr) suCall(c *ast.CallExpr, fun string, p *pre) ([]string, bool) {
	// make(Parameters)
	if fun == "make" && len(c.Args) >= 1 && isParamsMap(t.typeOf(c)) {
		for _, a := range c.Args[1:] {
			if _, ok := t.constOf(a); !ok {
				fail("make of a map with a size that is not a constant")
			}
		}
		return []string{"(mapEmpty : Params)"}, true
	}
	s, isSel := c.Fun.(*ast.SelectorExpr)
	// srv.logger.Debug(…)
	if isSel {
		if in, ok := s.X.(*ast.SelectorExpr); ok && t.suObj(in.X) != nil && t.suObj(in.X) == t.su.srvVar {
			if in.Sel.Name == "logger" && s.Sel.Name == "Debug" {
				for _, a := range c.Args {
					t.suLogArg(a)
				}
				return nil, true
			}
			fail("use of the server's field %s", t.src(s))
		}
	}
	fn := t.calledFunc(c)
	if fn == nil {
		return nil, false
	}
	sig := fn.Type().(*types.Signature)
	if isSel {
		// a method of the world's reader
		if o := t.suObj(s.X); o != nil && t.su.readerVars[o] {
			sel := t.info.Selections[s]
			if sel == nil || sel.Kind() != types.MethodVal || len(sel.Index()) != 1 {
				fail("%s is not a method of buffer.Reader itself", t.src(s))
			}
			lean := "Reader_" + fn.Name()
			if !t.bufFns[lean] {
				fail("buffer.Reader.%s is not among the functions of Trans.lean", fn.Name())
			}
			args := ""
			if t.needFuel[lean] {
				args, t.usesFuel = " fuel", true
			}
			for i, a := range c.Args {
				args += " " + t.typed(a, t.leanType(sig.Params().At(i).Type()), p)
			}
			r := t.fresh()
			p.add(fmt.Sprintf("(Trans.%s%s w).bind fun %s w =>", lean, args, r))
			return tupleProj(r, sig.Results().Len()), true
		}
		// a method of the server translated before
		if o := t.suObj(s.X); o != nil && o == t.su.srvVar {
			if !t.su.fns[fn.Name()] {
				fail("call of Server.%s, which is not translated (yet)", fn.Name())
			}
			return t.suCallOwn(c, fn, sig, p), true
		}
	}
	if fn.Pkg() != nil && fn.Pkg().Path() == wirePkg && sig.Recv() == nil && fn.Name() == "setClientParameters" {
		if o := t.suObj(c.Args[0]); o == nil || !t.su.ctxVars[o] {
			fail("setClientParameters on something else than the caller's context: %s", t.src(c))
		}
		return []string{"(CtxR.withClient " + t.typed(c.Args[1], "Params", p) + ")"}, true
	}
	return nil, false
}

// suCallOwn: a call of a translated method of Server (reader and context arguments are the world's)
func (t *tr) suCallOwn(c *ast.CallExpr, fn *types.Func, sig *types.Signature, p *pre) []string {
	args := ""
	if t.needFuel["Server_"+fn.Name()] {
		args, t.usesFuel = " fuel", true
	}
	for i, a := range c.Args {
		pt := sig.Params().At(i).Type()
		switch {
		case isReaderPtr(pt):
			if o := t.suObj(a); o == nil || !t.su.readerVars[o] {
				fail("reader argument %s of %s", t.src(a), fn.Name())
			}
		case isContext(pt):
			if o := t.suObj(a); o == nil || !t.su.ctxVars[o] {
				fail("context argument %s of %s", t.src(a), fn.Name())
			}
		default:
			args += " " + t.typed(a, t.leanType(pt), p)
		}
	}
	r := t.fresh()
	p.add(fmt.Sprintf("(Server_%s%s w).bind fun %s w =>", fn.Name(), args, r))
	return tupleProj(r, sig.Results().Len())
}

// suStmt: the statements specific to start-up parsing; false hands the statement to the general scheme
func (t *tr) suStmt(s ast.Stmt, depth int, out *[]string, next func(int, *[]string)) bool {
	switch s := s.(type) {
	case *ast.DeclStmt:
		// var x T: the zero value
		gd, ok := s.Decl.(*ast.GenDecl)
		if !ok || gd.Tok != token.VAR {
			fail("declaration %s", t.src(s))
		}
		for _, sp := range gd.Specs {
			vs := sp.(*ast.ValueSpec)
			if len(vs.Values) != 0 || vs.Type == nil {
				fail("declaration with an initialiser: %s", t.src(s))
			}
			for _, n := range vs.Names {
				lt := t.leanType(t.typeOf(vs.Type))
				zero, ok := map[string]string{"Int": "0", "UInt8": "0", "Bool": "false", "Option Err": "none", "Bytes": "[]"}[lt]
				if !ok {
					fail("zero value of %s", lt)
				}
				if n.Name != "_" {
					*out = append(*out, fmt.Sprintf("%slet %s : %s := %s", ind(depth), t.ident(n), lt, zero))
				}
			}
		}
		next(depth, out)
		return true
	case *ast.AssignStmt:
		// m[k] = v on a local map
		if len(s.Lhs) != 1 || len(s.Rhs) != 1 || s.Tok != token.ASSIGN {
			return false
		}
		ix, ok := s.Lhs[0].(*ast.IndexExpr)
		if !ok {
			return false
		}
		m, ok := ix.X.(*ast.Ident)
		if !ok || !isParamsMap(t.typeOf(m)) {
			return false
		}
		if _, isVar := t.objOf(m).(*types.Var); !isVar || t.names[t.objOf(m)] == "" {
			fail("assignment into a map that is not a local variable: %s", t.src(s))
		}
		p := &pre{}
		k := t.typed(ix.Index, "Bytes", p)
		v := t.typed(s.Rhs[0], "Bytes", p)
		t.emitPre(p, depth, out)
		*out = append(*out, fmt.Sprintf("%slet %s := mapSet %s %s %s", ind(depth), t.ident(m), t.ident(m), k, v))
		next(depth, out)
		return true
	case *ast.BranchStmt:
		if s.Tok != token.BREAK {
			return false
		}
		if s.Label != nil || len(t.su.brk) == 0 {
			fail("break with a label or outside a loop")
		}
		// leave the innermost loop: what follows the loop runs here
		b := t.su.brk[len(t.su.brk)-1]
		saved, savedLoops := t.su.brk, t.loopStack
		t.su.brk, t.loopStack = t.su.brk[:len(t.su.brk)-1], t.loopStack[:len(t.loopStack)-1]
		b(depth, out)
		t.su.brk, t.loopStack = saved, savedLoops
		return true
	case *ast.ForStmt:
		if s.Init != nil || s.Post != nil {
			fail("only `for cond {…}` and `for {…}` loops are supported")
		}
		c := ""
		if s.Cond != nil {
			p := &pre{}
			c = t.cond(s.Cond, p)
			if len(p.lines) > 0 {
				fail("checked operation in a loop condition")
			}
		}
		ast.Inspect(s.Body, func(n ast.Node) bool {
			switch n.(type) {
			case *ast.SwitchStmt, *ast.TypeSwitchStmt, *ast.SelectStmt:
				fail("switch/select inside a loop with break")
			}
			return true
		})
		t.suLoop(s, c, depth, out, next)
		return true
	}
	return false
}

// suLoop: main.go's `loop` with `break` (the loop's continuation is kept for the `break`s of its body) and
// with the handles (server, reader, context) left out of the loop state
func (t *tr) suLoop(s *ast.ForStmt, cond string, depth int, out *[]string, next func(int, *[]string)) {
	t.loopN++
	name := fmt.Sprintf("%s.loop%d", t.fnName, t.loopN)
	vars := t.suScopeVars(s)
	sig, args := "", ""
	for _, v := range vars {
		sig += fmt.Sprintf(" (%s : %s)", v.name, v.typ)
		args += " " + v.name
	}
	var def []string
	def = append(def, fmt.Sprintf("def %s (fuel : Nat)%s (w : %s) : %s (%s) :=", name, sig, t.worldTy(), t.outTy(), tupleType(t.results)))
	def = append(def, "  match fuel with")
	def = append(def, "  | 0 => .fuel")
	def = append(def, "  | fuel + 1 =>")
	d := 2
	if cond != "" {
		def = append(def, fmt.Sprintf("    if %s then", cond))
		d = 3
	}
	t.loopStack = append(t.loopStack, loopCtx{name: name, label: t.labels[s], args: args})
	t.su.brk = append(t.su.brk, next)
	t.stmts(s.Body.List, d, &def, func(d int, o *[]string) {
		*o = append(*o, fmt.Sprintf("%s%s fuel%s w", ind(d), name, args))
	})
	t.su.brk = t.su.brk[:len(t.su.brk)-1]
	t.loopStack = t.loopStack[:len(t.loopStack)-1]
	if cond != "" {
		def = append(def, "    else")
		next(3, &def)
	}
	t.loops = append(t.loops, strings.Join(def, "\n"))
	*out = append(*out, fmt.Sprintf("%s%s fuel%s w", ind(depth), name, args))
}

// suScopeVars: parameters, named results and locals in scope at the loop statement (Lean names)
func (t *tr) suScopeVars(loop ast.Stmt) []param {
	vars := append([]param{}, t.params...)
	seen := map[string]bool{}
	for _, v := range vars {
		seen[v.name] = true
	}
	for idt, obj := range t.info.Defs {
		v, ok := obj.(*types.Var)
		if !ok || v.IsField() || idt.Pos() >= loop.Pos() || idt.Pos() < t.fnPos || idt.Name == "_" {
			continue
		}
		if v.Parent() == nil || !v.Parent().Contains(loop.Pos()) {
			continue
		}
		if obj == t.su.srvVar || t.su.readerVars[obj] || t.su.ctxVars[obj] {
			continue
		}
		n := t.ident(idt)
		if seen[n] {
			continue
		}
		seen[n] = true
		vars = append(vars, param{n, t.leanType(v.Type())})
	}
	sort.SliceStable(vars[len(t.params):], func(i, j int) bool { return vars[len(t.params)+i].name < vars[len(t.params)+j].name })
	return vars
}

// suFunction: a method of Server.  The receiver and the reader / context parameters are handles on the
// world: the general scheme gets the declaration without them.
func (t *tr) suFunction(fd *ast.FuncDecl) (defs string, err string) {
	defer func() {
		if r := recover(); r != nil {
			if u, ok := r.(unsupported); ok {
				defs, err = "", u.msg
				return
			}
			panic(r)
		}
	}()
	t.su.readerVars, t.su.ctxVars, t.su.srvVar, t.su.brk = map[types.Object]bool{}, map[types.Object]bool{}, nil, nil
	if fd.Recv == nil || len(fd.Recv.List) != 1 || len(fd.Recv.List[0].Names) != 1 || !isServerPtr(t.typeOf(fd.Recv.List[0].Type)) {
		fail("not a method of *Server with a named receiver")
	}
	t.su.srvVar = t.info.Defs[fd.Recv.List[0].Names[0]]
	params := &ast.FieldList{Opening: fd.Type.Params.Opening, Closing: fd.Type.Params.Closing}
	for _, f := range fd.Type.Params.List {
		ty := t.typeOf(f.Type)
		switch {
		case isReaderPtr(ty):
			for _, n := range f.Names {
				t.su.readerVars[t.info.Defs[n]] = true
			}
		case isContext(ty):
			for _, n := range f.Names {
				t.su.ctxVars[t.info.Defs[n]] = true
			}
		default:
			params.List = append(params.List, f)
		}
	}
	// the handles must not be reassigned or used as values
	ast.Inspect(fd.Body, func(n ast.Node) bool {
		switch n := n.(type) {
		case *ast.AssignStmt:
			for _, l := range n.Lhs {
				if o := t.suObj(l); o != nil && (o == t.su.srvVar || t.su.readerVars[o] || t.su.ctxVars[o]) {
					fail("assignment to the handle %s", t.src(l))
				}
			}
		case *ast.UnaryExpr:
			if n.Op == token.AND {
				fail("address taken: %s", t.src(n))
			}
		case *ast.FuncLit, *ast.GoStmt:
			fail("function literal or go statement")
		}
		return true
	})
	fd2 := &ast.FuncDecl{Name: fd.Name, Body: fd.Body,
		Type: &ast.FuncType{Func: fd.Type.Func, Params: params, Results: fd.Type.Results}}
	d, e := t.function(fd2)
	if e != "" {
		return "", e
	}
	// the general scheme names the definition after the function; methods of Server get the prefix
	d = strings.ReplaceAll(d, "def "+fd.Name.Name+".loop", "def Server_"+fd.Name.Name+".loop")
	d = strings.ReplaceAll(d, " "+fd.Name.Name+".loop", " Server_"+fd.Name.Name+".loop")
	d = strings.Replace(d, "def "+fd.Name.Name+" ", "def Server_"+fd.Name.Name+" ", 1)
	d = strings.Replace(d, "/-- "+t.src(fd2.Type)+" -/", "/-- "+strings.ReplaceAll(t.src(fd.Type), "-/", "- /")+" (receiver, reader and context are the world's) -/", 1)
	if t.needFuel[fd.Name.Name] {
		delete(t.needFuel, fd.Name.Name)
		t.needFuel["Server_"+fd.Name.Name] = true
	}
	return d, ""
}

// suVersionConsts: the constants of type types.Version that the given file mentions, as Lean definitions
func (t *tr) suVersionConsts(out *strings.Builder, f *ast.File) {
	vals := map[string]string{}
	ast.Inspect(f, func(n ast.Node) bool {
		s, ok := n.(*ast.SelectorExpr)
		if !ok {
			return true
		}
		c, ok := t.info.Uses[s.Sel].(*types.Const)
		if !ok || c.Pkg() == nil || c.Pkg().Path() != typesPkg || !namedIn(c.Type(), typesPkg, "Version") {
			return true
		}
		vals[c.Name()] = c.Val().ExactString()
		return true
	})
	var names []string
	for n := range vals {
		names = append(names, n)
	}
	sort.Strings(names)
	for _, n := range names {
		fmt.Fprintf(out, "/-- types.%s -/\ndef %s : Int := %s\n", n, n, vals[n])
	}
	var qs []string
	for _, n := range names {
		qs = append(qs, fmt.Sprintf("%q", n))
	}
	fmt.Fprintf(out, "/-- the protocol-version constants handshake.go compares with -/\ndef versionConsts : List String := [%s]\n\n", strings.Join(qs, ", "))
}

// suComparisons: every comparison of a value with a types.Version constant in the file, as
// (function, operator, constant) — pinned in TieStartup.lean
func (t *tr) suComparisons(out *strings.Builder, f *ast.File) {
	var cs []string
	for _, d := range f.Decls {
		fd, ok := d.(*ast.FuncDecl)
		if !ok || fd.Body == nil {
			continue
		}
		ast.Inspect(fd.Body, func(n ast.Node) bool {
			b, ok := n.(*ast.BinaryExpr)
			if !ok {
				return true
			}
			for _, side := range []ast.Expr{b.X, b.Y} {
				if s, ok := side.(*ast.SelectorExpr); ok {
					if c, ok := t.info.Uses[s.Sel].(*types.Const); ok && namedIn(c.Type(), typesPkg, "Version") {
						cs = append(cs, fmt.Sprintf("(%q, %q, %q)", fd.Name.Name, b.Op.String(), c.Name()))
					}
				}
			}
			return true
		})
	}
	fmt.Fprintf(out, "/-- where handshake.go compares the version with a constant: (function, operator, constant) -/\ndef versionTests : List (String × String × String) := [%s]\n\n", strings.Join(cs, ", "))
}

// translateStartup: the start-up parsing of handshake.go -> TransStartup.lean
func translateStartup(root string, bt *tr) string {
	fset, files, info := loadWire(root)
	t := &tr{fset: fset, info: info, needFuel: bt.needFuel, bufFns: bt.bufFns, su: &suState{fns: map[string]bool{}}}
	var out strings.Builder
	out.WriteString("/- GENERATED by go/translate (-startup) from handshake.go of /repo's working tree on every check run. Do not edit. -/\n")
	out.WriteString("import Pw.Generated.Trans\nimport Pw.Go.RtStartup\nset_option linter.unusedVariables false\nnamespace Pw.TransStartup\nopen Pw Pw.Go\n\n")
	var bad []string
	var hs *ast.File
	for _, f := range files {
		if fset.Position(f.Pos()).Filename == "handshake.go" {
			hs = f
		}
	}
	if hs == nil {
		bad = append(bad, "handshake.go: not found")
	} else {
		t.suVersionConsts(&out, hs)
		t.suComparisons(&out, hs)
	}
	want := []string{"Server.readVersion", "Server.readClientParameters"}
	decls := funcDecls(files)
	for _, n := range want {
		fd, ok := decls[n]
		if !ok {
			bad = append(bad, n+": not found")
			continue
		}
		if pos := fset.Position(fd.Pos()); pos.Filename != "handshake.go" {
			bad = append(bad, n+": declared in "+pos.Filename)
			continue
		}
		defs, e := t.suFunction(fd)
		if e != "" {
			bad = append(bad, n+": "+e)
			continue
		}
		t.su.fns[fd.Name.Name] = true
		out.WriteString(defs + "\n")
	}
	var qs []string
	for _, b := range bad {
		qs = append(qs, fmt.Sprintf("%q", b))
	}
	fmt.Fprintf(&out, "/-- what the translator could not handle (TieStartup.lean demands this be empty) -/\ndef untranslatable : List String := [%s]\n", strings.Join(qs, ", "))
	out.WriteString("\nend Pw.TransStartup\n")
	return out.String()
}
