// The part of pwtranslate that is specific to /repo/copy.go (root package `wire`):
//
//   - loading and type-checking the root package (build constraints honoured, so `verif_on.go` is out);
//   - the world of the generated code (Pw/Go/RtCopy.lean, `CWorld`): the receivers `r *CopyReader`,
//     `r *BinaryCopyReader`, the field `r.reader` and the embedded `r.Reader` denote the single object of
//     their type; `Reader.Msg`, `Reader.MaxMessageSize` live in `w.base.reader`, `pending/started/done`
//     in `w.bin`; `len(r.scanners)` is `w.bin.nscanners`, `r.scanners[i](v)` the external `scanCall`,
//     `ctx.Err()` the external `w.ctxErr`;
//   - the calls copy.go may make: methods of the three receiver types (pkg/buffer's go to the definitions
//     of Trans.lean through `liftR`, with `liftErr` on their error results), error constructors
//     (`errors.New`, `fmt.Errorf` with `%w` or with `%d` verbs only, `newErrClientCopyFailed`,
//     `NewErrUnimplementedMessageType`), `buffer.UnwrapMessageSizeExceeded`, `append(a, b...)`,
//     `bytes.HasPrefix`, `make([]any, n)`.
//
// Everything else goes through the general scheme of main.go; whatever neither handles lands in
// `TransCopy.untranslatable`.
package main

import (
	"fmt"
	"go/ast"
	"go/build"
	"go/constant"
	"go/importer"
	"go/parser"
	"go/token"
	"go/types"
	"os"
	"sort"
	"strings"
)

const bufferPkg = "github.com/jeroenrinzema/psql-wire/pkg/buffer"

func isContext(ty types.Type) bool { return ty.String() == "context.Context" }

func isAnySlice(ty types.Type) bool {
	s, ok := ty.Underlying().(*types.Slice)
	if !ok {
		return false
	}
	i, ok := s.Elem().Underlying().(*types.Interface)
	return ok && i.Empty()
}

// copyType: Lean types of copy.go's values beyond those of pkg/buffer ("" = not one of them)
func (t *tr) copyType(ty types.Type) string {
	switch {
	case isAnySlice(ty):
		return "List AnyV"
	case ty.String() == bufferPkg+".MessageSizeExceeded":
		return "MessageSizeExceeded"
	}
	if i, ok := ty.Underlying().(*types.Interface); ok && i.Empty() {
		return "AnyV"
	}
	return ""
}

// goPath: the field path of e below the receiver, embedded fields made explicit
// (`r.Msg` in a CopyReader method = [Reader Msg]); ok=false when e is not rooted at the receiver.
func (t *tr) goPath(e ast.Expr) ([]string, bool) {
	switch e := e.(type) {
	case *ast.ParenExpr:
		return t.goPath(e.X)
	case *ast.Ident:
		if t.recvName != "" && e.Name == t.recvName {
			if v, ok := t.info.Uses[e].(*types.Var); ok && !v.IsField() && v.Pos() >= t.fnPos {
				return []string{}, true
			}
		}
	case *ast.SelectorExpr:
		base, ok := t.goPath(e.X)
		if !ok {
			return nil, false
		}
		sel := t.info.Selections[e]
		if sel == nil || sel.Kind() != types.FieldVal {
			return nil, false
		}
		return append(base, fieldSteps(sel.Recv(), sel.Index())...), true
	}
	return nil, false
}

// fieldSteps names the struct fields along an index path
func fieldSteps(ty types.Type, index []int) []string {
	var out []string
	for _, i := range index {
		if p, ok := ty.Underlying().(*types.Pointer); ok {
			ty = p.Elem()
		}
		st, ok := ty.Underlying().(*types.Struct)
		if !ok {
			fail("field path through %s", ty)
		}
		f := st.Field(i)
		out = append(out, f.Name())
		ty = f.Type()
	}
	return out
}

// normalise: the object a receiver-rooted path denotes (its type name) and the fields below it
func (t *tr) normalise(path []string) (string, []string) {
	kind := t.recvKind
	for len(path) > 0 {
		switch {
		case kind == "BinaryCopyReader" && path[0] == "reader":
			kind = "CopyReader"
		case kind == "CopyReader" && path[0] == "Reader":
			kind = "Reader"
		default:
			return kind, path
		}
		path = path[1:]
	}
	return kind, path
}

func (t *tr) copyPlace(e ast.Expr) (string, bool) {
	path, ok := t.goPath(e)
	if !ok || len(path) == 0 {
		return "", false
	}
	kind, rest := t.normalise(path)
	if len(rest) != 1 {
		return "", false
	}
	switch kind + "." + rest[0] {
	case "Reader.Msg", "Reader.MaxMessageSize":
		return "base.reader." + rest[0], true
	case "BinaryCopyReader.pending", "BinaryCopyReader.started", "BinaryCopyReader.done":
		return "bin." + rest[0], true
	}
	return "", false
}

// copySelector: selectors that are neither places nor io.* values
func (t *tr) copySelector(e *ast.SelectorExpr, p *pre) (string, bool) {
	// a field of a local struct value (`exceeded.Size`)
	if x, ok := e.X.(*ast.Ident); ok {
		if v, ok := t.info.Uses[x].(*types.Var); ok && !v.IsField() && t.copyType(v.Type()) == "MessageSizeExceeded" {
			switch e.Sel.Name {
			case "Size", "Max":
				return t.ident(x) + "." + e.Sel.Name, true
			}
		}
	}
	return "", false
}

// pkgVar: a package-level []byte variable with a constant initialiser, emitted as a Lean constant
func (t *tr) pkgVar(e ast.Expr) (string, bool) {
	idt, ok := e.(*ast.Ident)
	if !ok {
		return "", false
	}
	v, ok := t.info.Uses[idt].(*types.Var)
	if !ok || v.IsField() || v.Parent() != v.Pkg().Scope() {
		return "", false
	}
	if _, ok := pkgVars[v.Name()]; !ok {
		fail("package variable %s", v.Name())
	}
	return v.Name(), true
}

// package-level variables the translated functions read: name -> Lean definition
var pkgVars = map[string]string{}

// resolveMethod: for a call `x.m(…)` the kind of the object x denotes and the method's name
func (t *tr) resolveMethod(c *ast.CallExpr) (kind, name string, sig *types.Signature, ok bool) {
	s, isSel := c.Fun.(*ast.SelectorExpr)
	if !isSel {
		return
	}
	sel := t.info.Selections[s]
	if sel == nil || sel.Kind() != types.MethodVal {
		return
	}
	path, rooted := t.goPath(s.X)
	if !rooted {
		return
	}
	idx := sel.Index()
	path = append(path, fieldSteps(sel.Recv(), idx[:len(idx)-1])...)
	kind, rest := t.normalise(path)
	if len(rest) != 0 {
		fail("method call on %s", t.src(s.X))
	}
	fn := sel.Obj().(*types.Func)
	sig = fn.Type().(*types.Signature)
	// the method must belong to the object's own type (not to a further embedded one)
	rt := sig.Recv().Type()
	if p, isPtr := rt.(*types.Pointer); isPtr {
		rt = p.Elem()
	}
	named, isNamed := rt.(*types.Named)
	if !isNamed || named.Obj().Name() != kind {
		fail("method %s of %s reached through %s", fn.Name(), rt, kind)
	}
	if kind == "Reader" && named.Obj().Pkg().Path() != bufferPkg {
		fail("method of %s", rt)
	}
	return kind, fn.Name(), sig, true
}

func tupleProj(r string, n int) []string {
	switch n {
	case 0:
		return nil
	case 1:
		return []string{r}
	case 2:
		return []string{r + ".1", r + ".2"}
	case 3:
		return []string{r + ".1", r + ".2.1", r + ".2.2"}
	}
	fail("%d results", n)
	return nil
}

// copyCall: the calls specific to copy.go; ok=false hands the call to the general scheme
func (t *tr) copyCall(c *ast.CallExpr, fun string, p *pre) ([]string, bool) {
	// r.scanners[index](value)
	if ix, ok := c.Fun.(*ast.IndexExpr); ok {
		if path, ok := t.goPath(ix.X); ok && t.recvKind == "BinaryCopyReader" && len(path) == 1 && path[0] == "scanners" && len(c.Args) == 1 {
			i := t.expr(ix.Index, p)
			v := t.typed(c.Args[0], "Bytes", p)
			r := t.fresh()
			p.add(fmt.Sprintf("(scanCall %s %s w).bind fun %s w =>", i, v, r))
			return []string{r + ".1", r + ".2"}, true
		}
		fail("call of %s", t.src(c.Fun))
	}
	// methods of the receiver types
	if kind, name, sig, ok := t.resolveMethod(c); ok {
		args := ""
		lean := kind + "_" + name
		if kind == "Reader" && !t.bufFns[lean] {
			fail("buffer.Reader.%s is not among the functions of Trans.lean", name)
		}
		if kind != "Reader" && !t.copyFns[lean] {
			fail("call of %s, which is not translated (yet)", lean)
		}
		if t.needFuel[lean] {
			args, t.usesFuel = " fuel", true
		}
		for i, a := range c.Args {
			pt := sig.Params().At(i).Type()
			if isContext(pt) {
				continue
			}
			if t.isByteSlice(pt) {
				fail("[]byte argument of %s", lean)
			}
			args += " " + t.typed(a, t.leanType(pt), p)
		}
		r := t.fresh()
		n := sig.Results().Len()
		if kind == "Reader" {
			p.add(fmt.Sprintf("(liftR (Trans.%s%s w.base) w).bind fun %s w =>", lean, args, r))
			rs := tupleProj(r, n)
			for i := range rs {
				rt := sig.Results().At(i).Type()
				switch {
				case isError(rt):
					rs[i] = "(liftErr " + rs[i] + ")"
				case t.isByteSlice(rt):
					fail("[]byte result of %s", lean)
				}
			}
			return rs, true
		}
		p.add(fmt.Sprintf("(%s%s w).bind fun %s w =>", lean, args, r))
		return tupleProj(r, n), true
	}
	switch fun {
	case "len":
		a := c.Args[0]
		if path, ok := t.goPath(a); ok && t.recvKind == "BinaryCopyReader" && len(path) == 1 && path[0] == "scanners" {
			return []string{"(w.bin.nscanners : Int)"}, true
		}
		if n, ok := t.pkgVar(a); ok {
			return []string{"(" + n + ".length : Int)"}, true
		}
		if t.leanType(t.typeOf(a)) == "List AnyV" {
			return []string{"(" + t.expr(a, p) + ".length : Int)"}, true
		}
	case "append":
		if len(c.Args) == 2 && c.Ellipsis.IsValid() && t.isByteSlice(t.typeOf(c.Args[0])) && t.rep(c.Args[0]) == "Bytes" {
			return []string{"(" + t.bytesOf(c.Args[0], p) + " ++ " + t.bytesOf(c.Args[1], p) + ")"}, true
		}
		fail("append shape %s", t.src(c))
	case "make":
		if isAnySlice(t.typeOf(c)) && len(c.Args) == 2 {
			v := t.fresh()
			p.add(fmt.Sprintf("%s (makeAnys %s) fun %s =>", t.chk(), t.expr(c.Args[1], p), v))
			return []string{v}, true
		}
		fail("make of %s", t.typeOf(c))
	case "bytes.HasPrefix":
		return []string{"(hasPrefix " + t.copyBytes(c.Args[0], p) + " " + t.copyBytes(c.Args[1], p) + ")"}, true
	case "buffer.UnwrapMessageSizeExceeded":
		v := t.fresh()
		p.add(fmt.Sprintf("let %s := unwrapSizeExceeded %s", v, t.typed(c.Args[0], t.errTy(), p)))
		return []string{v + ".1", v + ".2"}, true
	case "newErrClientCopyFailed":
		return []string{"(some (CErr.copyFailed " + t.typed(c.Args[0], "Bytes", p) + "))"}, true
	case "NewErrUnimplementedMessageType":
		return []string{"(some (CErr.unimplemented " + t.typed(c.Args[0], "UInt8", p) + "))"}, true
	case "errors.New":
		text, ok := t.constOf(c.Args[0])
		if !ok {
			fail("errors.New of a non-constant")
		}
		return []string{"(some (CErr.new " + text + "))"}, true
	case "fmt.Errorf":
		return []string{t.errorf(c, p)}, true
	}
	// ctx.Err()
	if s, ok := c.Fun.(*ast.SelectorExpr); ok && s.Sel.Name == "Err" && len(c.Args) == 0 {
		if tv, ok := t.info.Types[s.X]; ok && isContext(tv.Type) {
			return []string{"w.ctxErr"}, true
		}
	}
	return nil, false
}

// copyBytes: a []byte operand, package-level constants included
func (t *tr) copyBytes(e ast.Expr, p *pre) string {
	if n, ok := t.pkgVar(e); ok {
		return n
	}
	return t.bytesOf(e, p)
}

func byteList(s string) string {
	var bs []string
	for _, c := range []byte(s) {
		bs = append(bs, fmt.Sprint(c))
	}
	return "([" + strings.Join(bs, ", ") + "] : Bytes)"
}

// errorf: `fmt.Errorf(format, args…)` with a constant format that is either `pre%wpost` with one error
// operand or uses `%d` verbs only, with integer operands
func (t *tr) errorf(c *ast.CallExpr, p *pre) string {
	tv, ok := t.info.Types[c.Args[0]]
	if !ok || tv.Value == nil || tv.Value.Kind() != constant.String {
		fail("fmt.Errorf with a non-constant format")
	}
	format := constant.StringVal(tv.Value)
	var verbs []string
	for i := 0; i < len(format); i++ {
		if format[i] == '%' {
			if i+1 >= len(format) {
				fail("format %q", format)
			}
			verbs = append(verbs, format[i:i+2])
			i++
		}
	}
	if len(verbs) != len(c.Args)-1 {
		fail("fmt.Errorf: %d verbs, %d operands", len(verbs), len(c.Args)-1)
	}
	if len(verbs) == 1 && verbs[0] == "%w" {
		if !isError(t.typeOf(c.Args[1])) {
			fail("%%w of a %s", t.typeOf(c.Args[1]))
		}
		i := strings.Index(format, "%w")
		return "(errorfW " + byteList(format[:i]) + " " + byteList(format[i+2:]) + " " + t.typed(c.Args[1], t.errTy(), p) + ")"
	}
	var args []string
	for i, v := range verbs {
		nk := numKind(t.typeOf(c.Args[i+1]))
		if v != "%d" || nk == "" || nk == "byte" {
			fail("fmt.Errorf verb %s with a %s operand", v, t.typeOf(c.Args[i+1]))
		}
		args = append(args, t.expr(c.Args[i+1], p))
	}
	return "(some (CErr.errorf " + byteList(format) + " [" + strings.Join(args, ", ") + "]))"
}

// loadWire parses and type-checks the root package of the working tree
func loadWire(root string) (*token.FileSet, []*ast.File, *types.Info) {
	fset := token.NewFileSet()
	entries, err := os.ReadDir(root)
	if err != nil {
		fmt.Fprintln(os.Stderr, err)
		os.Exit(1)
	}
	ctx := build.Default
	var names []string
	for _, e := range entries {
		n := e.Name()
		if e.IsDir() || !strings.HasSuffix(n, ".go") || strings.HasSuffix(n, "_test.go") {
			continue
		}
		if ok, err := ctx.MatchFile(root, n); err != nil || !ok {
			continue
		}
		names = append(names, n)
	}
	sort.Strings(names)
	var files []*ast.File
	for _, n := range names {
		f, err := parser.ParseFile(fset, n, nil, 0)
		if err != nil {
			fmt.Fprintln(os.Stderr, "parse error:", err)
			os.Exit(1)
		}
		files = append(files, f)
	}
	info := &types.Info{Types: map[ast.Expr]types.TypeAndValue{}, Defs: map[*ast.Ident]types.Object{}, Uses: map[*ast.Ident]types.Object{},
		Selections: map[*ast.SelectorExpr]*types.Selection{}}
	conf := types.Config{Importer: importer.ForCompiler(fset, "source", nil), Error: func(e error) { fmt.Fprintln(os.Stderr, "type error:", e) }}
	if _, err := conf.Check("github.com/jeroenrinzema/psql-wire", fset, files, info); err != nil {
		fmt.Fprintln(os.Stderr, "type check failed:", err)
		os.Exit(1)
	}
	return fset, files, info
}

// constBytesVar: `var X = []byte("…")` never assigned or address-taken anywhere in the package
func constBytesVar(t *tr, files []*ast.File, name string) (string, string) {
	var val string
	found := false
	var obj types.Object
	for _, f := range files {
		for _, d := range f.Decls {
			gd, ok := d.(*ast.GenDecl)
			if !ok || gd.Tok != token.VAR {
				continue
			}
			for _, sp := range gd.Specs {
				vs := sp.(*ast.ValueSpec)
				for i, n := range vs.Names {
					if n.Name != name || i >= len(vs.Values) {
						continue
					}
					call, ok := vs.Values[i].(*ast.CallExpr)
					if !ok || len(call.Args) != 1 || t.src(call.Fun) != "[]byte" {
						return "", "initialiser is not []byte(constant)"
					}
					tv, ok := t.info.Types[call.Args[0]]
					if !ok || tv.Value == nil || tv.Value.Kind() != constant.String {
						return "", "initialiser is not []byte(constant)"
					}
					val, found, obj = constant.StringVal(tv.Value), true, t.info.Defs[n]
				}
			}
		}
	}
	if !found {
		return "", "not found"
	}
	// the variable must be read-only: no assignment to it or to its elements, no `&X`, no `X[…] = …`
	bad := ""
	isVar := func(e ast.Expr) bool {
		for {
			switch x := e.(type) {
			case *ast.ParenExpr:
				e = x.X
				continue
			case *ast.IndexExpr:
				e = x.X
				continue
			case *ast.SliceExpr:
				e = x.X
				continue
			case *ast.Ident:
				return t.info.Uses[x] == obj
			}
			return false
		}
	}
	for _, f := range files {
		ast.Inspect(f, func(n ast.Node) bool {
			switch n := n.(type) {
			case *ast.AssignStmt:
				for _, l := range n.Lhs {
					if isVar(l) {
						bad = "assigned at " + t.fset.Position(n.Pos()).String()
					}
				}
			case *ast.IncDecStmt:
				if isVar(n.X) {
					bad = "modified at " + t.fset.Position(n.Pos()).String()
				}
			case *ast.UnaryExpr:
				if n.Op == token.AND && isVar(n.X) {
					bad = "address taken at " + t.fset.Position(n.Pos()).String()
				}
			}
			return true
		})
	}
	if bad != "" {
		return "", bad
	}
	return fmt.Sprintf("def %s : Bytes := %s\n", name, strings.TrimSuffix(strings.TrimPrefix(byteList(val), "("), " : Bytes)")), ""
}

// translateCopy: copy.go -> TransCopy.lean
func translateCopy(root string, bt *tr) string {
	fset, files, info := loadWire(root)
	t := &tr{fset: fset, info: info, needFuel: bt.needFuel, bufFns: bt.bufFns, copy: true, copyFns: map[string]bool{}}
	var out strings.Builder
	out.WriteString("/- GENERATED by go/translate (-copy) from copy.go of /repo's working tree on every check run. Do not edit. -/\n")
	out.WriteString("import Pw.Generated.Trans\nimport Pw.Go.RtCopy\nset_option linter.unusedVariables false\nnamespace Pw.TransCopy\nopen Pw Pw.Go\n\n")
	var bad []string
	// package-level constants the functions read
	for _, n := range []string{"CopySignature"} {
		def, e := constBytesVar(t, files, n)
		if e != "" {
			bad = append(bad, n+": "+e)
			continue
		}
		pkgVars[n] = def
		out.WriteString("/-- var " + n + " (read-only in the package) -/\n" + def + "\n")
	}
	// the functions to translate, in dependency order
	want := []string{
		"CopyReader.Read", "BinaryCopyReader.fill", "BinaryCopyReader.take", "BinaryCopyReader.takeLength",
		"BinaryCopyReader.skipHeader", "BinaryCopyReader.Read",
	}
	decls := funcDecls(files)
	for _, n := range want {
		fd, ok := decls[n]
		if !ok {
			bad = append(bad, n+": not found")
			continue
		}
		if pos := fset.Position(fd.Pos()); pos.Filename != "copy.go" {
			bad = append(bad, n+": declared in "+pos.Filename)
			continue
		}
		defs, e := t.function(fd)
		if e != "" {
			bad = append(bad, n+": "+e)
			continue
		}
		t.copyFns[strings.ReplaceAll(n, ".", "_")] = true
		out.WriteString(defs + "\n")
	}
	// struct layouts (pinned in TieCopy.lean: RtCopy.lean's CWorld/BinS mirror them)
	t.structLayouts(&out, files, []string{"CopyReader", "BinaryCopyReader"})
	var qs []string
	for _, b := range bad {
		qs = append(qs, fmt.Sprintf("%q", b))
	}
	fmt.Fprintf(&out, "\n/-- what the translator could not handle (TieCopy.lean demands this be empty) -/\ndef untranslatable : List String := [%s]\n", strings.Join(qs, ", "))
	out.WriteString("\nend Pw.TransCopy\n")
	return out.String()
}
