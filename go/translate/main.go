// pwtranslate translates functions of psql-wire (working tree given on the command line) into
// executable Lean definitions over the run-time libraries Pw/Go/Rt.lean and Pw/Go/RtCopy.lean.
//
//	pwtranslate <repo>            pkg/buffer (methods of buffer.Reader / buffer.Writer): prints
//	                              Pw/Generated/Trans.lean (namespace Pw.Trans) on stdout
//	pwtranslate -copy <repo>      copy.go of the root package (CopyReader.Read, BinaryCopyReader.fill,
//	                              take, takeLength, skipHeader, Read): prints Pw/Generated/TransCopy.lean
//	                              (namespace Pw.TransCopy; imports Trans.lean and calls its definitions)
//	pwtranslate -error <repo>     the ErrorResponse builder of error.go (writeErrorResponse, ErrorCode) and
//	                              readyForQuery of handshake.go: prints Pw/Generated/TransError.lean
//	                              (namespace Pw.TransError; calls the Writer_* definitions of Trans.lean)
//	pwtranslate -o <dir> <repo>   writes all three files into <dir> (only when their contents changed)
//
// main.go holds the translation scheme proper; copy.go holds what is specific to copy.go (loading the
// root package, the mapping of receivers/fields to the world, the calls it may make); error.go what is
// specific to the ErrorResponse builder.  The Lean theorems of Pw/Props/Tie.lean relate every translated
// function to the hand-written model, so the model's byte-level layer is re-derived from the
// source on every check run.  Stdlib only (go/parser, go/types with the source importer).
//
// Translation scheme (statement lists in continuation-passing style, explicit world `w`):
//
//	x := e ; rest          let x := ⟦e⟧ ; ⟦rest⟧
//	recv.f = e ; rest      let w := { w with recv := { w.recv with f := ⟦e⟧ } } ; ⟦rest⟧
//	if c { A } ; rest      if ⟦c⟧ then ⟦A ; rest⟧ else ⟦rest⟧     (rest dropped behind a return)
//	for c { B } ; rest     a recursive `loopN fuel vars w`:  if ⟦c⟧ then ⟦B ; loopN⟧ else ⟦rest⟧
//	return e               run deferred calls, then `.ok ⟦e⟧ w`
//	a[i], a[lo:hi]         chk (checked operation) fun t => …       (a Go panic is `Out.panic`)
//	f(args)                (⟦f⟧ args w).bind fun r w => …     (`⟦f⟧ fuel args w` when f contains a loop,
//	                       directly or through its callees; the caller then takes `fuel` itself)
//	for {B}, L: for …      as above without the test; `continue` / `continue L` = the call `loopN fuel vars w`
//	for i := range n {B}   loopN with the bound and `i` as extra state; `continue` increments `i` first
//	switch x { case a, b: A … default: D } ; rest
//	                       let t := ⟦x⟧ ; if t = a ∨ t = b then ⟦A ; rest⟧ else … else ⟦D ; rest⟧
//	x := e in an inner scope that shadows x      the inner variable is renamed x_1 (names follow go/types objects)
//
// A construct outside the supported subset makes the function "untranslatable": it is listed in
// `untranslatable` (Tie.lean demands the list be empty) and its definition is omitted.
package main

import (
	"bytes"
	"fmt"
	"go/ast"
	"go/constant"
	"go/importer"
	"go/parser"
	"go/printer"
	"go/token"
	"go/types"
	"os"
	"path/filepath"
	"sort"
	"strings"
)

type unsupported struct{ msg string }

func fail(format string, a ...any) { panic(unsupported{fmt.Sprintf(format, a...)}) }

type tr struct {
	fset *token.FileSet
	info *types.Info
	// per function
	recvName   string // Go receiver identifier ("reader"/"writer")
	recvKind   string // "Reader" / "Writer" / ""
	fnName     string
	results    []string // Lean result types
	named      []string // named results
	defers     []*ast.CallExpr
	tmp        int
	loops      []string // emitted loop definitions (before the function)
	loopN      int
	params     []param // function parameters (for loop signatures)
	fnPos      token.Pos
	aliasFrame map[string]bool
	// naming of Go variables (go/types objects) in the current function
	names map[types.Object]string
	used  map[string]bool
	// fuel: functions (Lean names) that take a `fuel` argument; whether the current one must
	needFuel map[string]bool
	usesFuel bool
	// enclosing loops of the statement being translated, innermost last
	loopStack []loopCtx
	labels    map[ast.Stmt]string
	// copy.go mode (see copy.go)
	copy    bool
	bufFns  map[string]bool // translated functions of pkg/buffer, e.g. "Reader_Slurp"
	copyFns map[string]bool // functions of copy.go translated so far
	// error.go mode (see error.go)
	errm       bool
	errFns     map[string]bool       // functions of the root package translated so far
	errArgs    map[types.Object]bool // variables currently holding an `error` handed in by the caller (`ErrArg`)
	writerVars map[types.Object]bool // parameters of type *buffer.Writer: the world's writer
	// handshake.go start-up mode (see startup.go)
	su *suState
}

type loopCtx struct {
	name, label, args string
	post              []string // statements run before the next iteration (`i++` of a range loop)
}

type param struct{ name, typ string }

var leanKeywords = map[string]bool{"at": true, "from": true, "end": true, "have": true, "show": true, "then": true, "do": true,
	"w": true, "fun": true, "let": true, "in": true, "match": true, "with": true, "if": true, "else": true, "def": true, "fuel": true,
	"open": true, "type": true, "Type": true, "by": true, "where": true, "instance": true, "structure": true}

func id(n string) string {
	if leanKeywords[n] {
		return n + "_"
	}
	return n
}

// ident: the Lean name of a Go identifier.  Variables of the current function are named after their
// go/types object: a variable that shadows another one of the same name gets a numeric suffix.
func (t *tr) ident(e *ast.Ident) string {
	obj := t.info.Defs[e]
	if obj == nil {
		obj = t.info.Uses[e]
	}
	if n, ok := t.names[obj]; ok && obj != nil {
		return n
	}
	return id(e.Name)
}

// nameVars assigns the Lean names of all variables declared in fd, in source order.
func (t *tr) nameVars(fd *ast.FuncDecl) {
	t.names, t.used = map[types.Object]string{}, map[string]bool{}
	ast.Inspect(fd, func(n ast.Node) bool {
		idt, ok := n.(*ast.Ident)
		if !ok || idt.Name == "_" {
			return true
		}
		v, ok := t.info.Defs[idt].(*types.Var)
		if !ok || v.IsField() {
			return true
		}
		if _, done := t.names[v]; done {
			return true
		}
		name := id(idt.Name)
		for k := 1; t.used[name]; k++ {
			name = fmt.Sprintf("%s_%d", id(idt.Name), k)
		}
		t.used[name] = true
		t.names[v] = name
		return true
	})
}

func (t *tr) src(n ast.Node) string {
	var b bytes.Buffer
	printer.Fprint(&b, t.fset, n)
	return strings.Join(strings.Fields(b.String()), " ")
}

func (t *tr) fresh() string { t.tmp++; return fmt.Sprintf("t%d", t.tmp) }

// ---- types ------------------------------------------------------------------------------------

func (t *tr) isByteSlice(ty types.Type) bool {
	s, ok := ty.Underlying().(*types.Slice)
	if !ok {
		return false
	}
	b, ok := s.Elem().Underlying().(*types.Basic)
	return ok && b.Kind() == types.Uint8
}

func isByteArray(ty types.Type) bool {
	a, ok := ty.Underlying().(*types.Array)
	if !ok {
		return false
	}
	b, ok := a.Elem().Underlying().(*types.Basic)
	return ok && b.Kind() == types.Uint8
}

func isError(ty types.Type) bool { return ty.String() == "error" }

// numeric kind of a type: "i64","i32","i16","u16","u32","byte","" (not numeric)
func numKind(ty types.Type) string {
	b, ok := ty.Underlying().(*types.Basic)
	if !ok {
		return ""
	}
	switch b.Kind() {
	case types.Int, types.Int64, types.UntypedInt:
		return "i64"
	case types.Int32, types.UntypedRune:
		return "i32"
	case types.Int16:
		return "i16"
	case types.Uint16:
		return "u16"
	case types.Uint32:
		return "u32"
	case types.Uint64:
		return "u64"
	case types.Uint8:
		return "byte"
	}
	return ""
}

func (t *tr) leanType(ty types.Type) string {
	switch {
	case isError(ty):
		return t.errTy()
	case t.copy && t.copyType(ty) != "":
		return t.copyType(ty)
	case t.errm && t.errType(ty) != "":
		return t.errType(ty)
	case t.su != nil && t.suType(ty) != "":
		return t.suType(ty)
	case t.isByteSlice(ty):
		if t.recvKind == "Reader" && !t.copy {
			return "Sl"
		}
		return "Bytes"
	case isByteArray(ty):
		return "Bytes"
	}
	if b, ok := ty.Underlying().(*types.Basic); ok {
		switch {
		case b.Kind() == types.Bool:
			return "Bool"
		case b.Kind() == types.String:
			return "Bytes"
		case b.Kind() == types.Uint8:
			return "UInt8"
		case numKind(ty) != "":
			return "Int"
		}
	}
	fail("unsupported type %s", ty)
	return ""
}

// names that differ between the two modes (pkg/buffer: World/Out/Err, copy.go: CWorld/COut/CErr)
func (t *tr) errTy() string {
	if t.copy {
		return "Option CErr"
	}
	return "Option Err"
}

func (t *tr) chk() string {
	if t.copy {
		return "chkC"
	}
	return "chk"
}

func (t *tr) junk() string {
	if t.copy {
		return "w.base.junk"
	}
	return "w.junk"
}

func (t *tr) worldTy() string {
	if t.copy {
		return "CWorld"
	}
	return "World"
}

func (t *tr) outTy() string {
	if t.copy {
		return "COut"
	}
	return "Out"
}

// libErr: an error value of pkg/buffer / io (`Err.…`) as a value of the mode's error type
func (t *tr) libErr(e string) string {
	if t.copy {
		return "(some (CErr.lib " + e + "))"
	}
	if strings.Contains(e, " ") {
		return "(some (" + e + "))"
	}
	return "(some " + e + ")"
}

// place: the world path (below `w.`) of an lvalue reached from the receiver
func (t *tr) place(e ast.Expr) (string, bool) {
	if t.copy {
		return t.copyPlace(e)
	}
	if f, ok := t.recvField(e); ok {
		return t.recvLean() + "." + f, true
	}
	return "", false
}

// setPlace: `let w := { w with … := val }` for a world path
func setPlace(path, val string) string {
	parts := strings.Split(path, ".")
	var build func(prefix string, rest []string) string
	build = func(prefix string, rest []string) string {
		if len(rest) == 1 {
			return fmt.Sprintf("{ %s with %s := %s }", prefix, rest[0], val)
		}
		return fmt.Sprintf("{ %s with %s := %s }", prefix, rest[0], build(prefix+"."+rest[0], rest[1:]))
	}
	return "let w := " + build("w", parts)
}

func tupleType(ts []string) string {
	if len(ts) == 0 {
		return "Unit"
	}
	return strings.Join(ts, " × ")
}

// ---- expressions ------------------------------------------------------------------------------

// pre collects the bindings that must run before the expression's value exists.
type pre struct{ lines []string }

func (p *pre) add(s string) { p.lines = append(p.lines, s) }

func (t *tr) typeOf(e ast.Expr) types.Type {
	tv, ok := t.info.Types[e]
	if !ok {
		fail("no type for %s", t.src(e))
	}
	return tv.Type
}

func (t *tr) constOf(e ast.Expr) (string, bool) {
	tv, ok := t.info.Types[e]
	if !ok || tv.Value == nil {
		return "", false
	}
	switch tv.Value.Kind() {
	case constant.Int:
		s := tv.Value.ExactString()
		if strings.HasPrefix(s, "-") {
			return "(" + s + ")", true
		}
		return s, true
	case constant.Bool:
		return tv.Value.String(), true
	case constant.String:
		var bs []string
		for _, c := range []byte(constant.StringVal(tv.Value)) {
			bs = append(bs, fmt.Sprint(c))
		}
		return "([" + strings.Join(bs, ", ") + "] : Bytes)", true
	}
	return "", false
}

// recvField returns the field name if e is `recv.field`.
func (t *tr) recvField(e ast.Expr) (string, bool) {
	s, ok := e.(*ast.SelectorExpr)
	if !ok {
		return "", false
	}
	x, ok := s.X.(*ast.Ident)
	if !ok || x.Name != t.recvName || t.recvName == "" {
		return "", false
	}
	return s.Sel.Name, true
}

func (t *tr) recvLean() string { return strings.ToLower(t.recvKind) } // World field: reader / writer

// expr translates a pure-or-checked expression; bindings go to p.
func (t *tr) expr(e ast.Expr, p *pre) string {
	if c, ok := t.constOf(e); ok {
		if nk := numKind(t.typeOf(e)); nk == "byte" {
			return "(" + c + " : UInt8)"
		}
		return c
	}
	switch e := e.(type) {
	case *ast.ParenExpr:
		return t.expr(e.X, p)
	case *ast.Ident:
		if e.Name == "nil" {
			ty := t.typeOf(e)
			_ = ty
			fail("bare nil outside a typed context")
		}
		if t.errm {
			t.errIdentUse(e)
		}
		return t.ident(e)
	case *ast.SelectorExpr:
		if pl, ok := t.place(e); ok {
			return "w." + pl
		}
		switch t.src(e) {
		case "io.EOF":
			return t.libErr("Err.eof")
		case "io.ErrUnexpectedEOF":
			return t.libErr("Err.unexpectedEOF")
		}
		if t.copy {
			if r, ok := t.copySelector(e, p); ok {
				return r
			}
		}
		if t.errm {
			if r, ok := t.errSelector(e, p); ok {
				return r
			}
		}
		fail("unsupported selector %s", t.src(e))
	case *ast.UnaryExpr:
		switch e.Op {
		case token.NOT:
			return "(¬ " + t.cond(e.X, p) + ")"
		case token.SUB:
			return t.wrap(numKind(t.typeOf(e)), "(- "+t.expr(e.X, p)+")")
		}
		fail("unsupported unary %s", t.src(e))
	case *ast.BinaryExpr:
		switch e.Op {
		case token.ADD, token.SUB, token.MUL:
			op := map[token.Token]string{token.ADD: "+", token.SUB: "-", token.MUL: "*"}[e.Op]
			nk := numKind(t.typeOf(e))
			if nk == "" || nk == "byte" {
				fail("arithmetic on %s", t.typeOf(e))
			}
			return t.wrap(nk, "("+t.expr(e.X, p)+" "+op+" "+t.expr(e.Y, p)+")")
		}
		fail("boolean expression %s used as a value", t.src(e))
	case *ast.CallExpr:
		return t.call(e, p)
	case *ast.IndexExpr:
		x := t.expr(e.X, p)
		i := t.expr(e.Index, p)
		v := t.fresh()
		switch t.rep(e.X) {
		case "Sl":
			p.add(fmt.Sprintf("%s (Sl.index %s %s) fun %s =>", t.chk(), x, i, v))
		case "Bytes":
			p.add(fmt.Sprintf("%s (arrIndex %s %s) fun %s =>", t.chk(), x, i, v))
		default:
			fail("index into %s", t.typeOf(e.X))
		}
		return v
	case *ast.SliceExpr:
		if e.Slice3 {
			fail("3-index slice")
		}
		x := t.expr(e.X, p)
		v := t.fresh()
		switch t.rep(e.X) {
		case "Sl":
			switch {
			case e.Low == nil && e.High == nil:
				return x
			case e.Low == nil:
				p.add(fmt.Sprintf("%s (Sl.sliceTo %s %s %s) fun %s =>", t.chk(), t.junk(), x, t.expr(e.High, p), v))
			case e.High == nil:
				p.add(fmt.Sprintf("%s (Sl.sliceFrom %s %s %s) fun %s =>", t.chk(), t.junk(), x, t.expr(e.Low, p), v))
			default:
				p.add(fmt.Sprintf("%s (Sl.slice %s %s %s %s) fun %s =>", t.chk(), t.junk(), x, t.expr(e.Low, p), t.expr(e.High, p), v))
			}
		case "Bytes":
			lo, hi := "0", "("+x+".length : Int)"
			if e.Low != nil {
				lo = t.expr(e.Low, p)
			}
			if e.High != nil {
				hi = t.expr(e.High, p)
			}
			if e.Low == nil && e.High == nil {
				return x
			}
			p.add(fmt.Sprintf("%s (arrSlice %s %s %s) fun %s =>", t.chk(), x, lo, hi, v))
		default:
			fail("slice of %s", t.typeOf(e.X))
		}
		return v
	case *ast.StarExpr:
		// *((*string)(unsafe.Pointer(&s)))  ==  the bytes of s, as a string
		if strings.HasPrefix(t.src(e), "*((*string)(unsafe.Pointer(&") {
			inner := e.X.(*ast.ParenExpr).X.(*ast.CallExpr).Args[0].(*ast.CallExpr).Args[0].(*ast.UnaryExpr).X
			return t.bytesOf(inner, p)
		}
		fail("unsupported dereference %s", t.src(e))
	}
	fail("unsupported expression %s (%T)", t.src(e), e)
	return ""
}

// rep: the Lean representation of the VALUE of e (a slice of an array is a plain byte list)
func (t *tr) rep(e ast.Expr) string {
	if t.copy && t.isByteSlice(t.typeOf(e)) {
		// only `reader.Msg` (and slices of it) carries a layout; every other []byte of copy.go is a byte list
		switch x := e.(type) {
		case *ast.ParenExpr:
			return t.rep(x.X)
		case *ast.SliceExpr:
			return t.rep(x.X)
		}
		if pl, ok := t.place(e); ok && strings.HasSuffix(pl, "reader.Msg") {
			return "Sl"
		}
		return "Bytes"
	}
	switch x := e.(type) {
	case *ast.ParenExpr:
		return t.rep(x.X)
	case *ast.SliceExpr:
		if isByteArray(t.typeOf(x.X)) || t.rep(x.X) == "Bytes" {
			return "Bytes"
		}
	}
	return t.leanType(t.typeOf(e))
}

// bytesOf: the contents of a []byte / string / array expression as `Bytes`
func (t *tr) bytesOf(e ast.Expr, p *pre) string {
	x := t.expr(e, p)
	if t.rep(e) == "Sl" {
		return x + ".data"
	}
	return x
}

func (t *tr) wrap(kind, e string) string {
	switch kind {
	case "i64", "i32", "i16", "u16", "u32", "u64":
		return "(" + kind + " " + e + ")"
	}
	return e
}

// typed: expression in a context that wants type `want` (handles nil and numeric literals)
func (t *tr) typed(e ast.Expr, want string, p *pre) string {
	if idt, ok := e.(*ast.Ident); ok && idt.Name == "nil" {
		if t.su != nil && t.suNil(want) != "" {
			return t.suNil(want)
		}
		switch want {
		case "Option Err", "Option CErr":
			return "none"
		case "List AnyV":
			return "([] : List AnyV)"
		case "Sl":
			return "({} : Sl)"
		case "Bytes":
			return "([] : Bytes)"
		}
		fail("nil as %s", want)
	}
	if want == "Option Err" {
		// constructors of this package return a concrete error value
		if c, ok := e.(*ast.CallExpr); ok {
			if f, ok := c.Fun.(*ast.Ident); ok {
				switch f.Name {
				case "NewMessageSizeExceeded":
					return "(some (Err.sizeExceeded " + t.expr(c.Args[0], p) + " " + t.expr(c.Args[1], p) + "))"
				case "NewMissingNulTerminator":
					return "(some Err.missingNul)"
				case "NewInsufficientData":
					return "(some (Err.insufficient " + t.expr(c.Args[0], p) + "))"
				}
			}
		}
	}
	if want == "UInt8" {
		if c, ok := t.constOf(e); ok {
			return "(" + c + " : UInt8)"
		}
	}
	if want == "Bytes" && t.rep(e) == "Sl" {
		return t.bytesOf(e, p)
	}
	return t.expr(e, p)
}

// cond translates a boolean expression to a decidable Prop.
func (t *tr) cond(e ast.Expr, p *pre) string {
	switch e := e.(type) {
	case *ast.ParenExpr:
		return "(" + t.cond(e.X, p) + ")"
	case *ast.UnaryExpr:
		if e.Op == token.NOT {
			return "(¬ " + t.cond(e.X, p) + ")"
		}
	case *ast.BinaryExpr:
		switch e.Op {
		case token.LAND, token.LOR:
			q := &pre{}
			r := t.cond(e.Y, q)
			if len(q.lines) > 0 {
				fail("checked operation on the right of a short-circuit operator: %s", t.src(e))
			}
			op := " ∧ "
			if e.Op == token.LOR {
				op = " ∨ "
			}
			return "(" + t.cond(e.X, p) + op + r + ")"
		case token.EQL, token.NEQ:
			op := " = "
			if e.Op == token.NEQ {
				op = " ≠ "
			}
			// comparisons with nil
			if idt, ok := e.Y.(*ast.Ident); ok && idt.Name == "nil" {
				lt := t.leanType(t.typeOf(e.X))
				x := t.expr(e.X, p)
				switch lt {
				case "Option Err", "Option CErr", "Option ErrSource":
					return "(" + x + op + "none)"
				case "Sl":
					if e.Op == token.NEQ {
						return "(" + x + ".nil = false)"
					}
					return "(" + x + ".nil = true)"
				}
				fail("comparison of %s with nil", lt)
			}
			lt := t.leanType(t.typeOf(e.X))
			return "(" + t.typed(e.X, lt, p) + op + t.typed(e.Y, lt, p) + ")"
		case token.LSS, token.LEQ, token.GTR, token.GEQ:
			op := map[token.Token]string{token.LSS: " < ", token.LEQ: " ≤ ", token.GTR: " > ", token.GEQ: " ≥ "}[e.Op]
			if numKind(t.typeOf(e.X)) == "byte" {
				fail("ordered comparison of bytes")
			}
			return "(" + t.expr(e.X, p) + op + t.expr(e.Y, p) + ")"
		}
	case *ast.Ident:
		return "(" + t.ident(e) + " = true)"
	case *ast.SelectorExpr, *ast.CallExpr:
		if t.copy && t.leanType(t.typeOf(e)) == "Bool" {
			return "(" + t.expr(e, p) + " = true)"
		}
	}
	fail("unsupported condition %s", t.src(e))
	return ""
}

// call translates a call used as an expression with ONE result.
func (t *tr) call(c *ast.CallExpr, p *pre) string {
	rs := t.callMulti(c, p)
	if len(rs) != 1 {
		fail("call %s used as a single value has %d results", t.src(c), len(rs))
	}
	return rs[0]
}

// callMulti translates any call, returning the Lean expressions of its results.
func (t *tr) callMulti(c *ast.CallExpr, p *pre) []string {
	fun := t.src(c.Fun)
	// conversions
	if tv, ok := t.info.Types[c.Fun]; ok && tv.IsType() {
		from := t.typeOf(c.Args[0])
		to := tv.Type
		fk, tk := numKind(from), numKind(to)
		x := t.expr(c.Args[0], p)
		switch {
		case isStringType(from) && isStringType(to):
			// string(v) for v of a named string type (and back): the same bytes
			return []string{x}
		case tk == "byte" && fk == "byte":
			return []string{x}
		case tk == "byte" && fk != "":
			return []string{"(byteOf " + x + ")"}
		case tk != "" && fk == "byte":
			return []string{"(intOfByte " + x + ")"}
		case tk != "" && fk != "":
			return []string{t.wrap(tk, x)}
		}
		fail("unsupported conversion %s", t.src(c))
	}
	if t.copy {
		if rs, ok := t.copyCall(c, fun, p); ok {
			return rs
		}
	}
	if t.errm {
		if rs, ok := t.errCall(c, fun, p); ok {
			return rs
		}
	}
	if t.su != nil {
		if rs, ok := t.suCall(c, fun, p); ok {
			return rs
		}
	}
	switch fun {
	case "len":
		a := c.Args[0]
		switch t.rep(a) {
		case "Sl":
			return []string{t.expr(a, p) + ".len"}
		case "Bytes":
			return []string{"(" + t.expr(a, p) + ".length : Int)"}
		}
		fail("len of %s", t.typeOf(a))
	case "cap":
		a := c.Args[0]
		if t.leanType(t.typeOf(a)) == "Sl" {
			return []string{t.expr(a, p) + ".capI"}
		}
		fail("cap of %s", t.typeOf(a))
	case "make":
		if !t.isByteSlice(t.typeOf(c)) {
			fail("make of %s", t.typeOf(c))
		}
		if t.recvKind == "Reader" {
			if len(c.Args) != 3 {
				fail("make without capacity in Reader code")
			}
			v := t.fresh()
			p.add(fmt.Sprintf("(makeBytes %s %s w).bind fun %s w =>", t.expr(c.Args[1], p), t.expr(c.Args[2], p), v))
			return []string{v}
		}
		if len(c.Args) != 2 {
			fail("make with capacity in Writer code")
		}
		return []string{"(makeScratch " + t.expr(c.Args[1], p) + ")"}
	case "binary.BigEndian.Uint16", "binary.BigEndian.Uint32":
		v := t.fresh()
		f := map[string]string{"binary.BigEndian.Uint16": "beUint16", "binary.BigEndian.Uint32": "beUint32"}[fun]
		p.add(fmt.Sprintf("%s (%s %s) fun %s =>", t.chk(), f, t.bytesOf(c.Args[0], p), v))
		return []string{v}
	case "binary.BigEndian.PutUint16", "binary.BigEndian.PutUint32":
		f := map[string]string{"binary.BigEndian.PutUint16": "bePutUint16", "binary.BigEndian.PutUint32": "bePutUint32"}[fun]
		val := t.expr(c.Args[1], p)
		switch d := c.Args[0].(type) {
		case *ast.Ident:
			if t.leanType(t.typeOf(d)) != "Bytes" {
				fail("%s into %s", fun, t.typeOf(d))
			}
			v := t.fresh()
			p.add(fmt.Sprintf("chk (%s %s %s) fun %s =>", f, t.ident(d), val, v))
			p.add(fmt.Sprintf("let %s := %s", t.ident(d), v))
			t.writeBackAlias(d.Name, p)
			return nil
		case *ast.SliceExpr:
			base, ok := d.X.(*ast.Ident)
			if !ok || d.Low == nil || d.High == nil || t.leanType(t.typeOf(base)) != "Bytes" {
				fail("%s into %s", fun, t.src(d))
			}
			lo := t.expr(d.Low, p)
			win := t.expr(d, p)
			v := t.fresh()
			p.add(fmt.Sprintf("chk (%s %s %s) fun %s =>", f, win, val, v))
			p.add(fmt.Sprintf("let %s := arrPatch %s (Int.toNat %s) %s", t.ident(base), t.ident(base), lo, v))
			t.writeBackAlias(base.Name, p)
			return nil
		}
		fail("%s into %s", fun, t.src(c.Args[0]))
	case "bytes.IndexByte":
		return []string{"(indexByte " + t.bytesOf(c.Args[0], p) + " " + t.typed(c.Args[1], "UInt8", p) + ")"}
	case "NewMessageSizeExceeded", "NewMissingNulTerminator", "NewInsufficientData":
		return []string{t.typed(c, "Option Err", p)}
	case "io.ReadFull":
		if t.src(c.Args[0]) != t.recvName+".Buffer" {
			fail("io.ReadFull from %s", t.src(c.Args[0]))
		}
		dst := c.Args[1]
		r := t.fresh()
		if f, ok := t.recvField(dst); ok && t.leanType(t.typeOf(dst)) == "Sl" {
			p.add(fmt.Sprintf("(ioReadFullSl w.%s.%s w).bind fun %s w =>", t.recvLean(), f, r))
			p.add(fmt.Sprintf("let w := { w with %s := { w.%s with %s := %s.1 } }", t.recvLean(), t.recvLean(), f, r))
			return []string{r + ".2.1", r + ".2.2"}
		}
		if s, ok := dst.(*ast.SliceExpr); ok && s.Low == nil && s.High == nil {
			if f, ok := t.recvField(s.X); ok && isByteArray(t.typeOf(s.X)) {
				p.add(fmt.Sprintf("(ioReadFullArr w.%s.%s w).bind fun %s w =>", t.recvLean(), f, r))
				p.add(fmt.Sprintf("let w := { w with %s := { w.%s with %s := %s.1 } }", t.recvLean(), t.recvLean(), f, r))
				return []string{r + ".2.1", r + ".2.2"}
			}
		}
		fail("io.ReadFull into %s", t.src(dst))
	}
	// methods reached through the receiver
	if t.recvName != "" && !t.copy {
		rn := t.recvName
		switch fun {
		case rn + ".Buffer.ReadByte":
			r := t.fresh()
			p.add(fmt.Sprintf("(readByte w).bind fun %s w =>", r))
			return []string{r + ".1", r + ".2"}
		case rn + ".frame.Write", rn + ".frame.WriteString":
			b := t.typed(c.Args[0], "Bytes", p)
			v := t.fresh()
			p.add(fmt.Sprintf("let %s : Bytes := %s", v, b))
			p.add(fmt.Sprintf("let w := { w with writer := { w.writer with frame := w.writer.frame ++ %s } }", v))
			return []string{"(" + v + ".length : Int)", "(none : Option Err)"}
		case rn + ".frame.WriteByte":
			b := t.typed(c.Args[0], "UInt8", p)
			p.add(fmt.Sprintf("let w := { w with writer := { w.writer with frame := w.writer.frame ++ [%s] } }", b))
			return []string{"(none : Option Err)"}
		case rn + ".frame.Bytes":
			return []string{"w.writer.frame"}
		case rn + ".frame.Len":
			return []string{"(w.writer.frame.length : Int)"}
		case rn + ".frame.Reset":
			p.add("let w := { w with writer := { w.writer with frame := [] } }")
			return nil
		case rn + ".Writer.Write":
			r := t.fresh()
			p.add(fmt.Sprintf("(connWrite %s w).bind fun %s w =>", t.typed(c.Args[0], "Bytes", p), r))
			return []string{r + ".1", r + ".2"}
		case rn + ".logger.Debug":
			// logging is not modelled; the arguments are still evaluated (they may index or slice)
			for _, a := range c.Args {
				t.evalForPanics(a, p)
			}
			return nil
		}
		// a method of this package on the same receiver
		if s, ok := c.Fun.(*ast.SelectorExpr); ok {
			if x, ok := s.X.(*ast.Ident); ok && x.Name == rn {
				sig, ok := t.typeOf(c.Fun).(*types.Signature)
				if !ok {
					fail("call of %s", fun)
				}
				args := ""
				if t.needFuel[t.recvKind+"_"+s.Sel.Name] {
					// the callee contains a loop: it runs on the caller's fuel
					args, t.usesFuel = " fuel", true
				}
				for i, a := range c.Args {
					args += " " + t.typed(a, t.leanType(sig.Params().At(i).Type()), p)
				}
				r := t.fresh()
				p.add(fmt.Sprintf("(%s_%s%s w).bind fun %s w =>", t.recvKind, s.Sel.Name, args, r))
				n := sig.Results().Len()
				switch n {
				case 0:
					return nil
				case 1:
					return []string{r}
				case 2:
					return []string{r + ".1", r + ".2"}
				case 3:
					return []string{r + ".1", r + ".2.1", r + ".2.2"}
				}
				fail("%d results", n)
			}
		}
	}
	fail("unsupported call %s", t.src(c))
	return nil
}

// a local defined as `recv.frame.Bytes()` aliases the frame buffer: writes through it are written back
func (t *tr) writeBackAlias(name string, p *pre) {
	if t.aliasFrame[name] {
		p.add(fmt.Sprintf("let w := { w with writer := { w.writer with frame := %s } }", id(name)))
	}
}

// evalForPanics evaluates only the index and slice expressions inside e (for dropped calls).
func (t *tr) evalForPanics(e ast.Expr, p *pre) {
	ast.Inspect(e, func(n ast.Node) bool {
		switch n := n.(type) {
		case *ast.IndexExpr:
			t.expr(n, p)
			return false
		case *ast.SliceExpr:
			t.expr(n, p)
			return false
		}
		return true
	})
}

// ---- statements -------------------------------------------------------------------------------

func ind(n int) string { return strings.Repeat("  ", n) }

func (t *tr) emitPre(p *pre, depth int, out *[]string) {
	for _, l := range p.lines {
		*out = append(*out, ind(depth)+l)
	}
}

func terminates(s ast.Stmt) bool {
	switch s := s.(type) {
	case *ast.ReturnStmt:
		return true
	case *ast.BlockStmt:
		return len(s.List) > 0 && terminates(s.List[len(s.List)-1])
	case *ast.IfStmt:
		if s.Else == nil {
			return false
		}
		return terminates(s.Body) && terminates(s.Else)
	}
	return false
}

// assign emits `lhs = value` for one target.
func (t *tr) assign(lhs ast.Expr, val string, depth int, out *[]string) {
	switch l := lhs.(type) {
	case *ast.Ident:
		if l.Name == "_" {
			return
		}
		if t.errm {
			t.errAssigned(l, depth)
		}
		*out = append(*out, fmt.Sprintf("%slet %s := %s", ind(depth), t.ident(l), val))
		return
	case *ast.SelectorExpr:
		if pl, ok := t.place(l); ok {
			*out = append(*out, ind(depth)+setPlace(pl, val))
			return
		}
	case *ast.IndexExpr:
		if x, ok := l.X.(*ast.Ident); ok && t.copy && t.leanType(t.typeOf(x)) == "List AnyV" {
			// row[i] = v on a local []any
			p := &pre{}
			i := t.expr(l.Index, p)
			t.emitPre(p, depth, out)
			v := t.fresh()
			*out = append(*out, fmt.Sprintf("%s%s (anySet %s %s %s) fun %s =>", ind(depth), t.chk(), t.ident(x), i, val, v))
			*out = append(*out, fmt.Sprintf("%slet %s := %s", ind(depth), t.ident(x), v))
			return
		}
		if f, ok := t.recvField(l.X); ok && !t.copy && isByteArray(t.typeOf(l.X)) {
			p := &pre{}
			i := t.expr(l.Index, p)
			t.emitPre(p, depth, out)
			v := t.fresh()
			*out = append(*out, fmt.Sprintf("%schk (arrSet w.%s.%s %s %s) fun %s =>", ind(depth), t.recvLean(), f, i, val, v))
			*out = append(*out, fmt.Sprintf("%slet w := { w with %s := { w.%s with %s := %s } }", ind(depth), t.recvLean(), t.recvLean(), f, v))
			return
		}
	}
	fail("unsupported assignment target %s", t.src(lhs))
}

// stmts translates a statement list followed by the continuation `k` (which emits what comes after it).
func (t *tr) stmts(list []ast.Stmt, depth int, out *[]string, k func(depth int, out *[]string)) {
	if len(list) == 0 {
		k(depth, out)
		return
	}
	s, rest := list[0], list[1:]
	next := func(d int, o *[]string) { t.stmts(rest, d, o, k) }
	if t.su != nil && t.suStmt(s, depth, out, next) {
		return
	}
	switch s := s.(type) {
	case *ast.BlockStmt:
		t.stmts(append(append([]ast.Stmt{}, s.List...), rest...), depth, out, k)
	case *ast.DeferStmt:
		t.defers = append(t.defers, s.Call)
		next(depth, out)
	case *ast.ExprStmt:
		c, ok := s.X.(*ast.CallExpr)
		if !ok {
			fail("expression statement %s", t.src(s))
		}
		p := &pre{}
		t.callMulti(c, p)
		t.emitPre(p, depth, out)
		next(depth, out)
	case *ast.IncDecStmt:
		fail("inc/dec statement")
	case *ast.AssignStmt:
		p := &pre{}
		switch {
		case s.Tok == token.ADD_ASSIGN || s.Tok == token.SUB_ASSIGN:
			op := "+"
			if s.Tok == token.SUB_ASSIGN {
				op = "-"
			}
			nk := numKind(t.typeOf(s.Lhs[0]))
			if nk == "" || nk == "byte" {
				fail("compound assignment on %s", t.typeOf(s.Lhs[0]))
			}
			v := t.wrap(nk, "("+t.expr(s.Lhs[0], p)+" "+op+" "+t.expr(s.Rhs[0], p)+")")
			t.emitPre(p, depth, out)
			t.assign(s.Lhs[0], v, depth, out)
		case s.Tok != token.ASSIGN && s.Tok != token.DEFINE:
			fail("assignment operator %s", s.Tok)
		case len(s.Rhs) == 1 && len(s.Lhs) > 1:
			c, ok := s.Rhs[0].(*ast.CallExpr)
			if !ok {
				fail("multi-assignment from %s", t.src(s.Rhs[0]))
			}
			rs := t.callMulti(c, p)
			if len(rs) != len(s.Lhs) {
				fail("arity of %s", t.src(s))
			}
			t.emitPre(p, depth, out)
			for i, l := range s.Lhs {
				t.assign(l, rs[i], depth, out)
			}
		case len(s.Rhs) == len(s.Lhs):
			if len(s.Lhs) != 1 {
				fail("parallel assignment")
			}
			l := s.Lhs[0]
			var want string
			if idt, ok := l.(*ast.Ident); ok && idt.Name == "_" {
				want = t.leanType(t.typeOf(s.Rhs[0]))
			} else if obj := t.lhsType(l); obj != nil {
				want = t.leanType(obj)
				if _, isPlace := t.place(l); t.copy && isPlace {
					want = t.rep(l) // `reader.Msg` keeps its layout
				}
			}
			v := t.typed(s.Rhs[0], want, p)
			t.emitPre(p, depth, out)
			t.assign(l, v, depth, out)
			if idt, ok := l.(*ast.Ident); ok {
				t.aliasFrame[idt.Name] = t.recvName != "" && t.src(s.Rhs[0]) == t.recvName+".frame.Bytes()"
			}
		default:
			fail("assignment shape %s", t.src(s))
		}
		next(depth, out)
	case *ast.ReturnStmt:
		p := &pre{}
		var vals []string
		if len(s.Results) == 0 {
			vals = append(vals, t.named...)
		} else if len(s.Results) == 1 && len(t.results) > 1 {
			c, ok := s.Results[0].(*ast.CallExpr)
			if !ok {
				fail("return of %s", t.src(s))
			}
			vals = t.callMulti(c, p)
		} else {
			for i, r := range s.Results {
				vals = append(vals, t.typed(r, t.results[i], p))
			}
		}
		t.emitPre(p, depth, out)
		// deferred calls run after the results are evaluated, newest first
		for i := len(t.defers) - 1; i >= 0; i-- {
			q := &pre{}
			t.callMulti(t.defers[i], q)
			t.emitPre(q, depth, out)
		}
		v := "()"
		if len(vals) > 0 {
			v = "(" + strings.Join(vals, ", ") + ")"
		}
		*out = append(*out, fmt.Sprintf("%s.ok %s w", ind(depth), v))
	case *ast.IfStmt:
		list2 := rest
		if s.Init != nil {
			// `if x := f(); c {…}`: the init statement first (scoping is not an issue: fresh names shadow)
			t.stmts([]ast.Stmt{s.Init, &ast.IfStmt{Cond: s.Cond, Body: s.Body, Else: s.Else}}, depth, out, func(d int, o *[]string) { t.stmts(list2, d, o, k) })
			return
		}
		p := &pre{}
		c := t.cond(s.Cond, p)
		t.emitPre(p, depth, out)
		*out = append(*out, fmt.Sprintf("%sif %s then", ind(depth), c))
		saved := t.defers
		t.stmts(s.Body.List, depth+1, out, next)
		t.defers = saved
		*out = append(*out, ind(depth)+"else")
		if s.Else != nil {
			t.stmts([]ast.Stmt{s.Else}, depth+1, out, next)
		} else {
			next(depth+1, out)
		}
		t.defers = saved
	case *ast.LabeledStmt:
		switch s.Stmt.(type) {
		case *ast.ForStmt, *ast.RangeStmt:
			t.labels[s.Stmt] = s.Label.Name
		default:
			fail("label on %T", s.Stmt)
		}
		t.stmts(append([]ast.Stmt{s.Stmt}, rest...), depth, out, k)
	case *ast.BranchStmt:
		// `continue` of the innermost loop (by label or bare): run the loop's post statements and iterate
		if s.Tok != token.CONTINUE || len(t.loopStack) == 0 {
			fail("%s statement", s.Tok)
		}
		lp := t.loopStack[len(t.loopStack)-1]
		if s.Label != nil && s.Label.Name != lp.label {
			fail("continue of an outer loop: %s", s.Label.Name)
		}
		for _, l := range lp.post {
			*out = append(*out, ind(depth)+l)
		}
		*out = append(*out, fmt.Sprintf("%s%s fuel%s w", ind(depth), lp.name, lp.args))
	case *ast.SwitchStmt:
		if s.Init != nil || s.Tag == nil {
			fail("switch with an init statement or without a tag")
		}
		p := &pre{}
		lt := t.leanType(t.typeOf(s.Tag))
		tag := t.typed(s.Tag, lt, p)
		t.emitPre(p, depth, out)
		v := t.fresh()
		*out = append(*out, fmt.Sprintf("%slet %s := %s", ind(depth), v, tag))
		var cases []*ast.CaseClause
		var deflt *ast.CaseClause
		for _, cs := range s.Body.List {
			cc := cs.(*ast.CaseClause)
			ast.Inspect(cc, func(n ast.Node) bool {
				switch b := n.(type) {
				case *ast.BranchStmt:
					if b.Tok != token.CONTINUE {
						fail("%s inside a switch", b.Tok)
					}
				case *ast.FuncLit:
					return false
				}
				return true
			})
			if cc.List == nil {
				deflt = cc
			} else {
				cases = append(cases, cc)
			}
		}
		saved := t.defers
		d := depth
		for _, cc := range cases {
			var alts []string
			for _, x := range cc.List {
				q := &pre{}
				alts = append(alts, v+" = "+t.typed(x, lt, q))
				if len(q.lines) > 0 {
					fail("checked operation in a case expression")
				}
			}
			*out = append(*out, fmt.Sprintf("%sif (%s) then", ind(d), strings.Join(alts, " ∨ ")))
			t.stmts(cc.Body, d+1, out, next)
			t.defers = saved
			*out = append(*out, ind(d)+"else")
			d++
		}
		if deflt != nil {
			t.stmts(deflt.Body, d, out, next)
		} else {
			next(d, out)
		}
		t.defers = saved
	case *ast.ForStmt:
		if s.Init != nil || s.Post != nil {
			fail("only `for cond {…}` and `for {…}` loops are supported")
		}
		c := ""
		if s.Cond != nil {
			p := &pre{}
			c = t.cond(s.Cond, p)
			if len(p.lines) > 0 {
				fail("checked operation in a loop condition")
			}
		}
		t.loop(s, s.Body, c, nil, nil, depth, out, next)
	case *ast.RangeStmt:
		// `for i := range n` over an integer: the bound is evaluated once, `i` runs from 0 to n-1
		key, ok := s.Key.(*ast.Ident)
		nk := numKind(t.typeOf(s.X))
		if !ok || s.Value != nil || s.Tok != token.DEFINE || nk == "" || nk == "byte" {
			fail("only `for i := range <integer>` range loops are supported")
		}
		p := &pre{}
		bound := t.expr(s.X, p)
		t.emitPre(p, depth, out)
		b, i := t.fresh(), t.ident(key)
		*out = append(*out, fmt.Sprintf("%slet %s : Int := %s", ind(depth), b, bound))
		*out = append(*out, fmt.Sprintf("%slet %s : Int := 0", ind(depth), i))
		t.loop(s, s.Body, fmt.Sprintf("(%s < %s)", i, b), []param{{b, "Int"}, {i, "Int"}},
			[]string{fmt.Sprintf("let %s := (%s + 1)", i, i)}, depth, out, next)
	default:
		fail("unsupported statement %s (%T)", t.src(s), s)
	}
}

// loop emits the recursive definition of one loop (`cond` empty: `for {…}`) and the call that enters it.
// extra: loop state besides the variables in scope (already Lean names); post: run before the next iteration.
func (t *tr) loop(s ast.Stmt, body *ast.BlockStmt, cond string, extra []param, post []string, depth int, out *[]string, next func(int, *[]string)) {
	t.loopN++
	name := fmt.Sprintf("%s_%s.loop%d", t.recvKind, t.fnName, t.loopN)
	if t.recvKind == "" {
		name = fmt.Sprintf("%s.loop%d", t.fnName, t.loopN)
	}
	// loop state: parameters and the locals visible here (declared before the loop in this function)
	vars := append(t.scopeVars(s), extra...)
	sig, args := "", ""
	for _, v := range vars {
		sig += fmt.Sprintf(" (%s : %s)", v.name, v.typ)
		args += " " + v.name
	}
	var def []string
	def = append(def, fmt.Sprintf("def %s (fuel : Nat)%s (w : %s) : %s (%s) :=", name, sig, t.worldTy(), t.outTy(), tupleType(t.results)))
	def = append(def, "  match fuel with")
	def = append(def, "  | 0 => .fuel")
	def = append(def, "  | fuel + 1 =>")
	d := 2
	if cond != "" {
		def = append(def, fmt.Sprintf("    if %s then", cond))
		d = 3
	}
	t.loopStack = append(t.loopStack, loopCtx{name: name, label: t.labels[s], args: args, post: post})
	t.stmts(body.List, d, &def, func(d int, o *[]string) {
		for _, l := range post {
			*o = append(*o, ind(d)+l)
		}
		*o = append(*o, fmt.Sprintf("%s%s fuel%s w", ind(d), name, args))
	})
	t.loopStack = t.loopStack[:len(t.loopStack)-1]
	if cond != "" {
		def = append(def, "    else")
		// what follows the loop runs inside the loop's definition: its own loops and `continue`s see the outer loops
		next(3, &def)
	}
	t.loops = append(t.loops, strings.Join(def, "\n"))
	*out = append(*out, fmt.Sprintf("%s%s fuel%s w", ind(depth), name, args))
}

func (t *tr) lhsType(l ast.Expr) types.Type {
	if idt, ok := l.(*ast.Ident); ok {
		if o := t.info.Defs[idt]; o != nil {
			return o.Type()
		}
		if o := t.info.Uses[idt]; o != nil {
			return o.Type()
		}
		return nil
	}
	if tv, ok := t.info.Types[l]; ok {
		return tv.Type
	}
	return nil
}

// scopeVars: parameters, named results and locals in scope at the loop statement (Lean names).
func (t *tr) scopeVars(loop ast.Stmt) []param {
	vars := append([]param{}, t.params...)
	seen := map[string]bool{}
	for _, v := range vars {
		seen[v.name] = true
	}
	for idt, obj := range t.info.Defs {
		v, ok := obj.(*types.Var)
		if !ok || v.IsField() || idt.Pos() >= loop.Pos() || idt.Pos() < t.fnPos || idt.Name == "_" || idt.Name == t.recvName {
			continue
		}
		if v.Parent() == nil || !v.Parent().Contains(loop.Pos()) || (t.copy && isContext(v.Type())) {
			continue
		}
		n := t.ident(idt)
		if seen[n] {
			continue
		}
		seen[n] = true
		vars = append(vars, param{n, t.leanType(v.Type())})
	}
	sort.SliceStable(vars[len(t.params):], func(i, j int) bool { return vars[len(t.params)+i].name < vars[len(t.params)+j].name })
	return vars
}

var _ = filepath.Join

// fnPos is set per function (start of the declaration)
func (t *tr) function(fd *ast.FuncDecl) (defs string, err string) {
	defer func() {
		if r := recover(); r != nil {
			if u, ok := r.(unsupported); ok {
				defs, err = "", u.msg
				return
			}
			panic(r)
		}
	}()
	t.recvName, t.recvKind, t.fnName = "", "", fd.Name.Name
	t.results, t.named, t.defers, t.tmp, t.loops, t.loopN, t.params = nil, nil, nil, 0, nil, 0, nil
	t.fnPos = fd.Pos()
	t.aliasFrame = map[string]bool{}
	t.usesFuel, t.loopStack, t.labels = false, nil, map[ast.Stmt]string{}
	t.errArgs, t.writerVars = map[types.Object]bool{}, map[types.Object]bool{}
	t.nameVars(fd)
	if fd.Recv != nil {
		f := fd.Recv.List[0]
		if len(f.Names) > 0 {
			t.recvName = f.Names[0].Name
		}
		ty := f.Type
		if s, ok := ty.(*ast.StarExpr); ok {
			ty = s.X
		}
		t.recvKind = ty.(*ast.Ident).Name
		if t.copy {
			if t.recvKind != "CopyReader" && t.recvKind != "BinaryCopyReader" {
				fail("receiver %s", t.recvKind)
			}
		} else if t.recvKind != "Reader" && t.recvKind != "Writer" {
			fail("receiver %s", t.recvKind)
		}
	}
	sig := ""
	for _, f := range fd.Type.Params.List {
		for _, n := range f.Names {
			if t.copy && isContext(t.typeOf(f.Type)) {
				continue // the context is part of the world (`ctx.Err()` = `w.ctxErr`)
			}
			if t.errm && t.errParam(n, t.typeOf(f.Type)) {
				continue // a *buffer.Writer: the writer of the world
			}
			lt := t.leanType(t.typeOf(f.Type))
			if t.errm && isError(t.typeOf(f.Type)) {
				lt = "ErrArg" // an error value handed in by the caller (see error.go)
			}
			sig += fmt.Sprintf(" (%s : %s)", t.ident(n), lt)
			t.params = append(t.params, param{t.ident(n), lt})
		}
	}
	var inits []string
	if fd.Type.Results != nil {
		for _, f := range fd.Type.Results.List {
			lt := t.leanType(t.typeOf(f.Type))
			if len(f.Names) == 0 {
				t.results = append(t.results, lt)
			}
			for _, n := range f.Names {
				t.results = append(t.results, lt)
				zero := map[string]string{"Int": "0", "UInt8": "0", "Bool": "false", "Option Err": "none", "Option CErr": "none",
					"Bytes": "[]", "Sl": "{}", "List AnyV": "[]"}[lt]
				if n.Name == "_" {
					// a blank result: `return` without operands yields its zero value
					t.named = append(t.named, "("+zero+" : "+lt+")")
					continue
				}
				t.named = append(t.named, t.ident(n))
				inits = append(inits, fmt.Sprintf("  let %s : %s := %s", t.ident(n), lt, zero))
			}
		}
	}
	var body []string
	t.stmts(fd.Body.List, 1, &body, func(d int, o *[]string) {
		// falling off the end of a function without results
		if len(t.results) != 0 {
			fail("missing return")
		}
		for i := len(t.defers) - 1; i >= 0; i-- {
			q := &pre{}
			t.callMulti(t.defers[i], q)
			t.emitPre(q, d, o)
		}
		*o = append(*o, ind(d)+".ok () w")
	})
	name := fd.Name.Name
	if t.recvKind != "" {
		name = t.recvKind + "_" + name
	}
	fuel := ""
	if len(t.loops) > 0 || t.usesFuel {
		fuel = " (fuel : Nat)"
		t.needFuel[name] = true
	}
	var b strings.Builder
	for _, l := range t.loops {
		b.WriteString(l + "\n\n")
	}
	fmt.Fprintf(&b, "/-- %s -/\n", strings.ReplaceAll(t.src(fd.Type), "-/", "- /"))
	fmt.Fprintf(&b, "def %s%s%s (w : %s) : %s (%s) :=\n", name, fuel, sig, t.worldTy(), t.outTy(), tupleType(t.results))
	for _, l := range inits {
		b.WriteString(l + "\n")
	}
	b.WriteString(strings.Join(body, "\n") + "\n")
	return b.String(), ""
}

func main() {
	args := os.Args[1:]
	mode, dir := "buffer", ""
	for len(args) > 0 && strings.HasPrefix(args[0], "-") {
		switch args[0] {
		case "-copy":
			mode = "copy"
			args = args[1:]
		case "-error":
			mode = "error"
			args = args[1:]
		case "-writer":
			mode = "writer"
			args = args[1:]
		case "-cache":
			mode = "cache"
			args = args[1:]
		case "-startup":
			mode = "startup"
			args = args[1:]
		case "-o":
			if len(args) < 2 {
				usage()
			}
			mode, dir = "both", args[1]
			args = args[2:]
		default:
			usage()
		}
	}
	if len(args) != 1 {
		usage()
	}
	root, err := filepath.Abs(args[0])
	if err != nil {
		panic(err)
	}
	if dir != "" {
		if dir, err = filepath.Abs(dir); err != nil {
			panic(err)
		}
	}
	if err := os.Chdir(root); err != nil {
		panic(err)
	}
	trans, bt := translateBuffer(root)
	switch mode {
	case "buffer":
		fmt.Print(trans)
	case "copy":
		fmt.Print(translateCopy(root, bt))
	case "error":
		fmt.Print(translateError(root, bt))
	case "writer":
		fmt.Print(translateWriter(root, bt))
	case "cache":
		fmt.Print(translateCache(root))
	case "startup":
		fmt.Print(translateStartup(root, bt))
	case "both":
		writeIfChanged(filepath.Join(dir, "Trans.lean"), trans)
		writeIfChanged(filepath.Join(dir, "TransCopy.lean"), translateCopy(root, bt))
		writeIfChanged(filepath.Join(dir, "TransError.lean"), translateError(root, bt))
		writeIfChanged(filepath.Join(dir, "TransWriter.lean"), translateWriter(root, bt))
		writeIfChanged(filepath.Join(dir, "TransCache.lean"), translateCache(root))
		writeIfChanged(filepath.Join(dir, "TransStartup.lean"), translateStartup(root, bt))
	}
}

func usage() {
	fmt.Fprintln(os.Stderr, "usage: pwtranslate [-copy | -error | -writer | -cache | -startup | -o <dir>] <repo>")
	os.Exit(2)
}

func writeIfChanged(path, content string) {
	if old, err := os.ReadFile(path); err == nil && string(old) == content {
		return
	}
	if err := os.WriteFile(path, []byte(content), 0o644); err != nil {
		fmt.Fprintln(os.Stderr, err)
		os.Exit(1)
	}
}

// funcDecls: the function declarations of a package keyed "Recv.Name" / "Name"
func funcDecls(files []*ast.File) map[string]*ast.FuncDecl {
	decls := map[string]*ast.FuncDecl{}
	for _, f := range files {
		for _, d := range f.Decls {
			fd, ok := d.(*ast.FuncDecl)
			if !ok || fd.Body == nil {
				continue
			}
			n := fd.Name.Name
			if fd.Recv != nil {
				ty := fd.Recv.List[0].Type
				if s, ok := ty.(*ast.StarExpr); ok {
					ty = s.X
				}
				if idt, ok := ty.(*ast.Ident); ok {
					n = idt.Name + "." + n
				}
			}
			decls[n] = fd
		}
	}
	return decls
}

// structLayouts prints `def struct<Name>` for the named struct types (pinned by the tie theorems:
// the run-time library's world mirrors them)
func (t *tr) structLayouts(out *strings.Builder, files []*ast.File, names []string) {
	for _, sn := range names {
		for _, f := range files {
			for _, d := range f.Decls {
				gd, ok := d.(*ast.GenDecl)
				if !ok {
					continue
				}
				for _, sp := range gd.Specs {
					ts, ok := sp.(*ast.TypeSpec)
					if !ok || ts.Name.Name != sn {
						continue
					}
					st, ok := ts.Type.(*ast.StructType)
					if !ok {
						continue
					}
					var fs []string
					for _, fl := range st.Fields.List {
						ty := t.src(fl.Type)
						if len(fl.Names) == 0 {
							fs = append(fs, fmt.Sprintf("(%q, %q)", "", ty))
						}
						for _, nm := range fl.Names {
							fs = append(fs, fmt.Sprintf("(%q, %q)", nm.Name, ty))
						}
					}
					fmt.Fprintf(out, "def struct%s : List (String × String) := [%s]\n", sn, strings.Join(fs, ", "))
				}
			}
		}
	}
}

// translateBuffer: pkg/buffer -> Trans.lean.  The translator state is handed on to the copy.go
// translation (which of the package's functions exist in Trans.lean and which of them take fuel).
func translateBuffer(root string) (string, *tr) {
	dir := filepath.Join(root, "pkg", "buffer")
	fset := token.NewFileSet()
	pkgs, err := parser.ParseDir(fset, dir, func(fi os.FileInfo) bool {
		return !strings.HasSuffix(fi.Name(), "_test.go")
	}, 0)
	if err != nil {
		fmt.Fprintln(os.Stderr, "parse error:", err)
		os.Exit(1)
	}
	p := pkgs["buffer"]
	var files []*ast.File
	var names []string
	for n := range p.Files {
		names = append(names, n)
	}
	sort.Strings(names)
	for _, n := range names {
		files = append(files, p.Files[n])
	}
	info := &types.Info{Types: map[ast.Expr]types.TypeAndValue{}, Defs: map[*ast.Ident]types.Object{}, Uses: map[*ast.Ident]types.Object{}}
	conf := types.Config{Importer: importer.ForCompiler(fset, "source", nil), Error: func(e error) { fmt.Fprintln(os.Stderr, "type error:", e) }}
	if _, err := conf.Check("buffer", fset, files, info); err != nil {
		fmt.Fprintln(os.Stderr, "type check failed:", err)
		os.Exit(1)
	}
	t := &tr{fset: fset, info: info, needFuel: map[string]bool{}, bufFns: map[string]bool{}}

	// the functions to translate, in dependency order
	want := []string{
		"Reader.reset", "Reader.ReadType", "Reader.ReadMsgSize", "Reader.ReadUntypedMsg", "Reader.ReadTypedMsg", "Reader.Slurp",
		"Reader.GetString", "Reader.GetBytes", "Reader.GetPrepareType", "Reader.GetUint16", "Reader.GetUint32",
		"Writer.Reset", "Writer.Error", "Writer.Bytes", "Writer.Start", "Writer.AddByte", "Writer.AddInt16", "Writer.AddInt32",
		"Writer.AddBytes", "Writer.AddString", "Writer.AddNullTerminate", "Writer.End", "EncodeBoolean",
	}
	decls := funcDecls(files)
	var out strings.Builder
	out.WriteString("/- GENERATED by go/translate from pkg/buffer of /repo's working tree on every check run. Do not edit. -/\n")
	out.WriteString("import Pw.Go.Rt\nset_option linter.unusedVariables false\nnamespace Pw.Trans\nopen Pw Pw.Go\n\n")
	var bad []string
	for _, n := range want {
		fd, ok := decls[n]
		if !ok {
			bad = append(bad, n+": not found")
			continue
		}
		defs, e := t.function(fd)
		if e != "" {
			bad = append(bad, n+": "+e)
			continue
		}
		t.bufFns[strings.ReplaceAll(n, ".", "_")] = true
		out.WriteString(defs + "\n")
	}
	// struct layouts of the two receivers (pinned in Tie.lean: Rt.lean's ReaderS/WriterS mirror them)
	t.structLayouts(&out, files, []string{"Reader", "Writer"})
	var qs []string
	for _, b := range bad {
		qs = append(qs, fmt.Sprintf("%q", b))
	}
	fmt.Fprintf(&out, "\n/-- functions the translator could not handle (Tie.lean demands this be empty) -/\ndef untranslatable : List String := [%s]\n", strings.Join(qs, ", "))
	out.WriteString("\nend Pw.Trans\n")
	return out.String(), t
}
