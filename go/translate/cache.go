// The part of pwtranslate that is specific to the statement / portal caches of /repo/cache.go (root package
// `wire`): DefaultStatementCache.{Set,Get,Close}, DefaultPortalCache.{Bind,Get,Close,Execute}.
//
// This mode has its own small statement/expression translator (nothing of main.go's buffer scheme applies:
// no byte slices, no loops), on the world `CW` of Pw/Go/RtCache.lean:
//
//   - the receiver (`*DefaultStatementCache` / `*DefaultPortalCache`) is not a Lean parameter: it denotes the
//     component `w.sc` / `w.pc` of the world; `cache.f` reads that field, `cache.f = e` updates it;
//   - a map-typed field: `m == nil` is `mapIsNil`, `map[K]V{}` is `mapMake`, `v, has := m[k]` is `mapGet`,
//     `m[k] = v` is the checked `mapSet` (write to the nil map = panic), `delete(m, k)` is `mapDelete`;
//   - `cache.mu.Lock()/Unlock()/RLock()/RUnlock()` are steps on the lock state (`rwLock` …: deadlock / fatal
//     are outcomes); `defer` (top level of the body only) wraps the rest of the body in `deferRun`, so the
//     deferred call runs on return AND on panic; the deferred recover-closure of Execute is `recoverRun`;
//   - `&Statement{…}` / `&Portal{…}` allocate in the heap of the world (`allocStmt` / `allocPortal`), a field
//     read through `*Statement` / `*Portal` / `*PreparedStatement` is a checked dereference;
//   - `context.Context`, `*buffer.Reader`, `*buffer.Writer` parameters are the connection's: no Lean
//     parameter; they may only be passed on to `NewDataWriter` / the statement function (external);
//   - the call of the statement function value `portal.statement.fn(…)` is the external `extCallFn`.
//
// Whatever is not handled lands in `TransCache.untranslatable`.
package main

import (
	"fmt"
	"go/ast"
	"go/token"
	"go/types"
	"strings"
)

type caTr struct {
	fset      *token.FileSet
	info      *types.Info
	recv      types.Object
	recvField string // "sc" / "pc"
	ambient   map[types.Object]bool
	namedRes  types.Object
	nres      int
	n         int
	h         *tr // for src()
}

func (t *caTr) fresh() string { t.n++; return fmt.Sprintf("x%d", t.n) }

func (t *caTr) obj(e *ast.Ident) types.Object {
	if o := t.info.Defs[e]; o != nil {
		return o
	}
	return t.info.Uses[e]
}

func (t *caTr) typeOf(e ast.Expr) types.Type {
	if tv, ok := t.info.Types[e]; ok {
		return tv.Type
	}
	if idt, ok := e.(*ast.Ident); ok {
		if o := t.obj(idt); o != nil {
			return o.Type()
		}
	}
	fail("no type for %s", t.h.src(e))
	return nil
}

func caPtrTo(ty types.Type, name string) bool {
	p, ok := ty.(*types.Pointer)
	return ok && namedIn(p.Elem(), wirePkg, name)
}

func caSliceOf(ty types.Type, pkg, name string) bool {
	s, ok := ty.(*types.Slice)
	return ok && namedIn(s.Elem(), pkg, name)
}

func caAmbient(ty types.Type) bool {
	if namedIn(ty, "context", "Context") {
		return true
	}
	if p, ok := ty.(*types.Pointer); ok {
		return namedIn(p.Elem(), bufferPkg, "Reader") || namedIn(p.Elem(), bufferPkg, "Writer")
	}
	return false
}

// leanType: the Lean type of a Go value type ("" = ambient: no Lean value)
func (t *caTr) leanType(ty types.Type) string {
	switch {
	case caAmbient(ty):
		return ""
	case isStringType(ty):
		return "Bytes"
	case isError(ty):
		return "Option CaErr"
	case caPtrTo(ty, "PreparedStatement"):
		return "Option PreparedStatementV"
	case caPtrTo(ty, "Statement"), caPtrTo(ty, "Portal"):
		return "Option Nat"
	case caSliceOf(ty, wirePkg, "Parameter"):
		return "List Bytes"
	case caSliceOf(ty, wirePkg, "FormatCode"):
		return "List Nat"
	case caSliceOf(ty, "github.com/lib/pq/oid", "Oid"):
		return "List Nat"
	case namedIn(ty, wirePkg, "Columns"):
		return "List Nat"
	}
	if b, ok := ty.Underlying().(*types.Basic); ok && b.Kind() == types.Bool {
		return "Bool"
	}
	fail("type %s", ty.String())
	return ""
}

func (t *caTr) isRecv(e ast.Expr) bool {
	idt, ok := e.(*ast.Ident)
	return ok && t.recv != nil && t.obj(idt) == t.recv
}

// recvFieldOf: `cache.f` -> "f"
func (t *caTr) recvFieldOf(e ast.Expr) (string, bool) {
	s, ok := e.(*ast.SelectorExpr)
	if !ok || !t.isRecv(s.X) {
		return "", false
	}
	sel := t.info.Selections[s]
	if sel == nil || sel.Kind() != types.FieldVal || len(sel.Index()) != 1 {
		fail("%s is not a field of the receiver itself", t.h.src(s))
	}
	return s.Sel.Name, true
}

func (t *caTr) setField(f, v string) string {
	return fmt.Sprintf("let w := { w with %s := { w.%s with %s := %s } }", t.recvField, t.recvField, id(f), v)
}

func isNilIdent(t *caTr, e ast.Expr) bool {
	idt, ok := e.(*ast.Ident)
	if !ok {
		return false
	}
	_, isNil := t.obj(idt).(*types.Nil)
	return isNil
}

// expr: the Lean term of a Go expression; checked / effectful sub-steps are appended to pre
func (t *caTr) expr(e ast.Expr, pre *[]string) string {
	switch e := e.(type) {
	case *ast.ParenExpr:
		return t.expr(e.X, pre)
	case *ast.Ident:
		if isNilIdent(t, e) {
			return "none"
		}
		o := t.obj(e)
		if o == nil {
			fail("identifier %s", e.Name)
		}
		if o == t.recv {
			fail("the receiver %s used as a value", e.Name)
		}
		if t.ambient[o] {
			fail("%s (the connection's) used as a value", e.Name)
		}
		if _, ok := o.(*types.Var); !ok {
			fail("identifier %s is not a variable", e.Name)
		}
		if o.Parent() == o.Pkg().Scope() {
			fail("package-level variable %s", e.Name)
		}
		return id(e.Name)
	case *ast.UnaryExpr:
		switch e.Op {
		case token.NOT:
			return "(!" + t.expr(e.X, pre) + ")"
		case token.AND:
			cl, ok := e.X.(*ast.CompositeLit)
			if !ok {
				fail("address of %s", t.h.src(e.X))
			}
			ty := t.typeOf(cl)
			var alloc string
			switch {
			case namedIn(ty, wirePkg, "Statement"):
				alloc = "allocStmt"
			case namedIn(ty, wirePkg, "Portal"):
				alloc = "allocPortal"
			default:
				fail("allocation of %s", ty.String())
			}
			var fs []string
			for _, el := range cl.Elts {
				kv, ok := el.(*ast.KeyValueExpr)
				if !ok {
					fail("positional composite literal %s", t.h.src(cl))
				}
				k, ok := kv.Key.(*ast.Ident)
				if !ok {
					fail("composite literal key %s", t.h.src(kv.Key))
				}
				fs = append(fs, id(k.Name)+" := "+t.expr(kv.Value, pre))
			}
			v := t.fresh()
			*pre = append(*pre, fmt.Sprintf("%s { %s } w fun %s w =>", alloc, strings.Join(fs, ", "), v))
			return v
		}
		fail("unary operator %s", e.Op)
	case *ast.BinaryExpr:
		if e.Op == token.EQL || e.Op == token.NEQ {
			x, y := e.X, e.Y
			if isNilIdent(t, x) {
				x, y = y, x
			}
			if isNilIdent(t, y) {
				xs := t.expr(x, pre)
				_, isMap := t.typeOf(x).Underlying().(*types.Map)
				var s string
				switch {
				case isMap:
					s = "mapIsNil " + xs
				default:
					lt := t.leanType(t.typeOf(x))
					if !strings.HasPrefix(lt, "Option ") {
						fail("comparison of %s with nil", t.h.src(x))
					}
					s = xs + ".isNone"
				}
				if e.Op == token.NEQ {
					return "(!(" + s + "))"
				}
				return "(" + s + ")"
			}
		}
		fail("binary expression %s", t.h.src(e))
	case *ast.CompositeLit:
		if _, ok := t.typeOf(e).Underlying().(*types.Map); ok && len(e.Elts) == 0 {
			return "mapMake"
		}
		fail("composite literal %s", t.h.src(e))
	case *ast.SelectorExpr:
		if f, ok := t.recvFieldOf(e); ok {
			if namedIn(t.typeOf(e), "sync", "RWMutex") || namedIn(t.typeOf(e), "sync", "Mutex") {
				fail("the mutex %s used as a value", t.h.src(e))
			}
			return "w." + t.recvField + "." + id(f)
		}
		sel := t.info.Selections[e]
		if sel == nil || sel.Kind() != types.FieldVal || len(sel.Index()) != 1 {
			fail("selector %s", t.h.src(e))
		}
		bt := t.typeOf(e.X)
		x := t.expr(e.X, pre)
		v := t.fresh()
		switch {
		case caPtrTo(bt, "PreparedStatement"):
			*pre = append(*pre, fmt.Sprintf("chk (caDeref %s) w fun %s w =>", x, v))
		case caPtrTo(bt, "Statement"):
			*pre = append(*pre, fmt.Sprintf("chk (heapGet w.stmtHeap %s) w fun %s w =>", x, v))
		case caPtrTo(bt, "Portal"):
			*pre = append(*pre, fmt.Sprintf("chk (heapGet w.portalHeap %s) w fun %s w =>", x, v))
		default:
			fail("field of %s", bt.String())
		}
		return v + "." + id(e.Sel.Name)
	case *ast.CallExpr:
		return t.call(e, pre)
	}
	fail("expression %s", t.h.src(e))
	return ""
}

func (t *caTr) ambientArg(e ast.Expr, what string) {
	idt, ok := e.(*ast.Ident)
	if !ok || !t.ambient[t.obj(idt)] {
		fail("%s: argument %s is not the connection's", what, t.h.src(e))
	}
}

func (t *caTr) call(c *ast.CallExpr, pre *[]string) string {
	// the statement function: a call through a field of function type
	if s, ok := c.Fun.(*ast.SelectorExpr); ok {
		if sel := t.info.Selections[s]; sel != nil && sel.Kind() == types.FieldVal {
			if !namedIn(t.typeOf(s), wirePkg, "PreparedStatementFn") || len(c.Args) != 3 {
				fail("call of the function value %s", t.h.src(s))
			}
			fn := t.expr(s, pre)
			t.ambientArg(c.Args[0], "statement function")
			dw := t.expr(c.Args[1], pre)
			ps := t.expr(c.Args[2], pre)
			v := t.fresh()
			*pre = append(*pre, fmt.Sprintf("cbind (extCallFn %s %s %s w) fun %s w =>", fn, dw, ps, v))
			return v
		}
	}
	if f, ok := c.Fun.(*ast.Ident); ok {
		if fn, ok := t.info.Uses[f].(*types.Func); ok && fn.Pkg() != nil && fn.Pkg().Path() == wirePkg {
			switch fn.Name() {
			case "NewErrUnknownPortal":
				if len(c.Args) != 1 {
					fail("%s", t.h.src(c))
				}
				return "(some (newErrUnknownPortal " + t.expr(c.Args[0], pre) + "))"
			case "NewDataWriter":
				if len(c.Args) != 5 {
					fail("%s", t.h.src(c))
				}
				t.ambientArg(c.Args[0], "NewDataWriter")
				t.ambientArg(c.Args[3], "NewDataWriter")
				t.ambientArg(c.Args[4], "NewDataWriter")
				cols := t.expr(c.Args[1], pre)
				fm := t.expr(c.Args[2], pre)
				return fmt.Sprintf("({ columns := %s, formats := %s } : DataWriterV)", cols, fm)
			}
		}
	}
	fail("call %s", t.h.src(c))
	return ""
}

// mutexCall: `cache.mu.Lock()` … -> (field, Rt operation)
func (t *caTr) mutexCall(c *ast.CallExpr) (string, string, bool) {
	s, ok := c.Fun.(*ast.SelectorExpr)
	if !ok || len(c.Args) != 0 {
		return "", "", false
	}
	f, ok := func() (f string, ok bool) {
		inner, isSel := s.X.(*ast.SelectorExpr)
		if !isSel || !t.isRecv(inner.X) {
			return "", false
		}
		return t.recvFieldOf(inner)
	}()
	if !ok {
		return "", "", false
	}
	mt := t.typeOf(s.X)
	rw := namedIn(mt, "sync", "RWMutex")
	if !rw && !namedIn(mt, "sync", "Mutex") {
		return "", "", false
	}
	op := map[string]string{"Lock": "rwLock", "Unlock": "rwUnlock"}
	if rw {
		op["RLock"], op["RUnlock"] = "rwRLock", "rwRUnlock"
	}
	o, ok := op[s.Sel.Name]
	if !ok {
		fail("mutex method %s", s.Sel.Name)
	}
	return f, o, true
}

func caInd(d int) string { return strings.Repeat("  ", d) }

func (t *caTr) emit(pre []string, d int, out *[]string) {
	for _, l := range pre {
		*out = append(*out, caInd(d)+l)
	}
}

// recoverClosure: `func() { r := recover(); if r != nil { <named result> = fmt.Errorf("<fmt with one %s>", r) } }()`
func (t *caTr) recoverClosure(c *ast.CallExpr) (string, bool) {
	fl, ok := c.Fun.(*ast.FuncLit)
	if !ok {
		return "", false
	}
	bad := func() (string, bool) {
		fail("deferred closure other than the recover pattern: %s", t.h.src(fl))
		return "", false
	}
	if len(c.Args) != 0 || len(fl.Body.List) != 2 || t.namedRes == nil || t.nres != 1 {
		return bad()
	}
	as, ok := fl.Body.List[0].(*ast.AssignStmt)
	if !ok || as.Tok != token.DEFINE || len(as.Lhs) != 1 || len(as.Rhs) != 1 {
		return bad()
	}
	r, ok := as.Lhs[0].(*ast.Ident)
	rc, ok2 := as.Rhs[0].(*ast.CallExpr)
	if !ok || !ok2 || len(rc.Args) != 0 {
		return bad()
	}
	if f, ok := rc.Fun.(*ast.Ident); !ok || f.Name != "recover" {
		return bad()
	} else if _, isB := t.info.Uses[f].(*types.Builtin); !isB {
		return bad()
	}
	is, ok := fl.Body.List[1].(*ast.IfStmt)
	if !ok || is.Init != nil || is.Else != nil || len(is.Body.List) != 1 {
		return bad()
	}
	cond, ok := is.Cond.(*ast.BinaryExpr)
	if !ok || cond.Op != token.NEQ || !isNilIdent(t, cond.Y) {
		return bad()
	}
	if x, ok := cond.X.(*ast.Ident); !ok || t.obj(x) != t.obj(r) {
		return bad()
	}
	set, ok := is.Body.List[0].(*ast.AssignStmt)
	if !ok || set.Tok != token.ASSIGN || len(set.Lhs) != 1 || len(set.Rhs) != 1 {
		return bad()
	}
	if l, ok := set.Lhs[0].(*ast.Ident); !ok || t.obj(l) != t.namedRes {
		return bad()
	}
	ec, ok := set.Rhs[0].(*ast.CallExpr)
	if !ok || len(ec.Args) != 2 {
		return bad()
	}
	es, ok := ec.Fun.(*ast.SelectorExpr)
	if !ok {
		return bad()
	}
	if fn, ok := t.info.Uses[es.Sel].(*types.Func); !ok || fn.Pkg() == nil || fn.Pkg().Path() != "fmt" || fn.Name() != "Errorf" {
		return bad()
	}
	tv := t.info.Types[ec.Args[0]]
	if tv.Value == nil {
		return bad()
	}
	if a, ok := ec.Args[1].(*ast.Ident); !ok || t.obj(a) != t.obj(r) {
		return bad()
	}
	f := tv.Value.ExactString() // a quoted Go string literal
	if strings.Count(f, "%") != 1 || strings.Count(f, "%s") != 1 || strings.ContainsAny(f, "\\") {
		return bad()
	}
	return f, true
}

// stmts: the statements of a block followed by the rest of the function (rest: what follows the block)
func (t *caTr) stmts(list []ast.Stmt, d int, top bool, out *[]string) {
	if len(list) == 0 {
		fail("missing return")
	}
	s, rest := list[0], list[1:]
	switch s := s.(type) {
	case *ast.ExprStmt:
		c, ok := s.X.(*ast.CallExpr)
		if !ok {
			fail("statement %s", t.h.src(s))
		}
		if f, op, ok := t.mutexCall(c); ok {
			*out = append(*out, caInd(d)+fmt.Sprintf("lockStep (%s w.%s.%s) w fun m w =>", op, t.recvField, id(f)))
			*out = append(*out, caInd(d)+t.setField(f, "m"))
			t.stmts(rest, d, top, out)
			return
		}
		if b, ok := c.Fun.(*ast.Ident); ok {
			if bi, ok := t.info.Uses[b].(*types.Builtin); ok && bi.Name() == "delete" {
				f, ok := t.recvFieldOf(c.Args[0])
				if !ok {
					fail("delete on %s", t.h.src(c.Args[0]))
				}
				var pre []string
				k := t.expr(c.Args[1], &pre)
				t.emit(pre, d, out)
				*out = append(*out, caInd(d)+t.setField(f, fmt.Sprintf("mapDelete w.%s.%s %s", t.recvField, id(f), k)))
				t.stmts(rest, d, top, out)
				return
			}
		}
		fail("call statement %s", t.h.src(s))
	case *ast.DeferStmt:
		if !top {
			fail("defer inside a branch")
		}
		if f, op, ok := t.mutexCall(s.Call); ok {
			*out = append(*out, caInd(d)+"deferRun (fun w =>")
			*out = append(*out, caInd(d+1)+fmt.Sprintf("lockStep (%s w.%s.%s) w fun m w =>", op, t.recvField, id(f)))
			*out = append(*out, caInd(d+1)+t.setField(f, "m"))
			*out = append(*out, caInd(d+1)+".ok () w) (")
			t.stmts(rest, d, top, out)
			*out = append(*out, caInd(d)+")")
			return
		}
		if f, ok := t.recoverClosure(s.Call); ok {
			*out = append(*out, caInd(d)+"recoverRun "+f+" (")
			t.stmts(rest, d, top, out)
			*out = append(*out, caInd(d)+")")
			return
		}
		fail("defer %s", t.h.src(s.Call))
	case *ast.AssignStmt:
		var pre []string
		switch {
		case len(s.Lhs) == 1 && len(s.Rhs) == 1 && s.Tok == token.ASSIGN:
			if f, ok := t.recvFieldOf(s.Lhs[0]); ok {
				v := t.expr(s.Rhs[0], &pre)
				t.emit(pre, d, out)
				*out = append(*out, caInd(d)+t.setField(f, v))
				t.stmts(rest, d, top, out)
				return
			}
			if ix, ok := s.Lhs[0].(*ast.IndexExpr); ok {
				f, ok := t.recvFieldOf(ix.X)
				if !ok {
					fail("assignment to %s", t.h.src(s.Lhs[0]))
				}
				if _, isMap := t.typeOf(ix.X).Underlying().(*types.Map); !isMap {
					fail("index assignment to a non-map %s", t.h.src(ix.X))
				}
				k := t.expr(ix.Index, &pre)
				v := t.expr(s.Rhs[0], &pre)
				t.emit(pre, d, out)
				*out = append(*out, caInd(d)+fmt.Sprintf("chk (mapSet w.%s.%s %s %s) w fun m w =>", t.recvField, id(f), k, v))
				*out = append(*out, caInd(d)+t.setField(f, "m"))
				t.stmts(rest, d, top, out)
				return
			}
		case len(s.Lhs) == 2 && len(s.Rhs) == 1 && s.Tok == token.DEFINE:
			ix, ok := s.Rhs[0].(*ast.IndexExpr)
			if !ok {
				break
			}
			f, ok := t.recvFieldOf(ix.X)
			if !ok {
				break
			}
			mt, isMap := t.typeOf(ix.X).Underlying().(*types.Map)
			if !isMap {
				break
			}
			if lt := t.leanType(mt.Elem()); lt != "Option Nat" {
				fail("map element type %s", mt.Elem().String())
			}
			a, ok1 := s.Lhs[0].(*ast.Ident)
			b, ok2 := s.Lhs[1].(*ast.Ident)
			if !ok1 || !ok2 || a.Name == "_" || b.Name == "_" {
				break
			}
			k := t.expr(ix.Index, &pre)
			t.emit(pre, d, out)
			v := t.fresh()
			*out = append(*out, caInd(d)+fmt.Sprintf("let %s := mapGet w.%s.%s %s", v, t.recvField, id(f), k))
			*out = append(*out, caInd(d)+fmt.Sprintf("let %s : Option Nat := %s.getD none", id(a.Name), v))
			*out = append(*out, caInd(d)+fmt.Sprintf("let %s : Bool := %s.isSome", id(b.Name), v))
			t.stmts(rest, d, top, out)
			return
		}
		fail("assignment %s", t.h.src(s))
	case *ast.IfStmt:
		if s.Init != nil {
			fail("if with an init statement")
		}
		var pre []string
		c := t.expr(s.Cond, &pre)
		t.emit(pre, d, out)
		*out = append(*out, caInd(d)+"if "+c+" then")
		thenL := append(append([]ast.Stmt{}, s.Body.List...), rest...)
		t.stmts(thenL, d+1, false, out)
		*out = append(*out, caInd(d)+"else")
		elseL := rest
		switch e := s.Else.(type) {
		case nil:
		case *ast.BlockStmt:
			elseL = append(append([]ast.Stmt{}, e.List...), rest...)
		default:
			fail("else if")
		}
		t.stmts(elseL, d+1, false, out)
		return
	case *ast.ReturnStmt:
		if len(s.Results) != t.nres {
			fail("return without operands")
		}
		var pre []string
		var vs []string
		for _, r := range s.Results {
			vs = append(vs, t.expr(r, &pre))
		}
		t.emit(pre, d, out)
		v := strings.Join(vs, ", ")
		if len(vs) > 1 {
			v = "(" + v + ")"
		}
		*out = append(*out, caInd(d)+".ok "+v+" w")
		return
	}
	fail("statement %s", t.h.src(s))
}

func (t *caTr) function(fd *ast.FuncDecl, recvType, recvField string) (defs string, err string) {
	defer func() {
		if r := recover(); r != nil {
			if u, ok := r.(unsupported); ok {
				defs, err = "", u.msg
				return
			}
			panic(r)
		}
	}()
	t.n, t.recv, t.recvField, t.namedRes, t.nres = 0, nil, recvField, nil, 0
	t.ambient = map[types.Object]bool{}
	if fd.Recv == nil || len(fd.Recv.List) != 1 || len(fd.Recv.List[0].Names) != 1 {
		fail("receiver")
	}
	rn := fd.Recv.List[0].Names[0]
	if !caPtrTo(t.typeOf(fd.Recv.List[0].Type), recvType) {
		fail("receiver type %s", t.h.src(fd.Recv.List[0].Type))
	}
	t.recv = t.obj(rn)
	sig := ""
	for _, f := range fd.Type.Params.List {
		ty := t.typeOf(f.Type)
		lt := t.leanType(ty)
		for _, n := range f.Names {
			if lt == "" {
				t.ambient[t.obj(n)] = true
				continue
			}
			sig += fmt.Sprintf(" (%s : %s)", id(n.Name), lt)
		}
		if len(f.Names) == 0 && lt != "" {
			fail("unnamed parameter")
		}
	}
	var res []string
	if fd.Type.Results != nil {
		for _, f := range fd.Type.Results.List {
			lt := t.leanType(t.typeOf(f.Type))
			if lt == "" {
				fail("result type %s", t.h.src(f.Type))
			}
			k := len(f.Names)
			if k == 0 {
				k = 1
			}
			for i := 0; i < k; i++ {
				res = append(res, lt)
			}
			for _, n := range f.Names {
				if t.namedRes != nil {
					fail("several named results")
				}
				t.namedRes = t.obj(n)
			}
		}
	}
	t.nres = len(res)
	if t.nres == 0 {
		fail("function without results")
	}
	var body []string
	t.stmts(fd.Body.List, 1, true, &body)
	var b strings.Builder
	fmt.Fprintf(&b, "/-- %s -/\n", strings.ReplaceAll(t.h.src(fd.Type), "-/", "- /"))
	fmt.Fprintf(&b, "def %s_%s%s (w : CW) : COut (%s) :=\n", recvType, fd.Name.Name, sig, strings.Join(res, " × "))
	b.WriteString(strings.Join(body, "\n") + "\n")
	return b.String(), ""
}

// translateCache: cache.go -> TransCache.lean
func translateCache(root string) string {
	fset, files, info := loadWire(root)
	t := &caTr{fset: fset, info: info, h: &tr{fset: fset, info: info}}
	var out strings.Builder
	out.WriteString("/- GENERATED by go/translate (-cache) from cache.go of /repo's working tree on every check run. Do not edit. -/\n")
	out.WriteString("import Pw.Go.RtCache\nset_option linter.unusedVariables false\nnamespace Pw.TransCache\nopen Pw Pw.Go.Cache\n\n")
	var bad []string
	want := []struct{ recv, field, name string }{
		{"DefaultStatementCache", "sc", "Set"}, {"DefaultStatementCache", "sc", "Get"}, {"DefaultStatementCache", "sc", "Close"},
		{"DefaultPortalCache", "pc", "Bind"}, {"DefaultPortalCache", "pc", "Get"}, {"DefaultPortalCache", "pc", "Close"},
		{"DefaultPortalCache", "pc", "Execute"},
	}
	decls := funcDecls(files)
	for _, wn := range want {
		key := wn.recv + "." + wn.name
		fd, ok := decls[key]
		if !ok {
			bad = append(bad, key+": not found")
			continue
		}
		if pos := fset.Position(fd.Pos()); pos.Filename != "cache.go" {
			bad = append(bad, key+": declared in "+pos.Filename)
			continue
		}
		defs, e := t.function(fd, wn.recv, wn.field)
		if e != "" {
			bad = append(bad, key+": "+e)
			continue
		}
		out.WriteString(defs + "\n")
	}
	// every other method of the two caches would be a way to reach the maps that the theorems do not cover
	for k, fd := range decls {
		if !strings.HasPrefix(k, "DefaultStatementCache.") && !strings.HasPrefix(k, "DefaultPortalCache.") {
			continue
		}
		known := false
		for _, wn := range want {
			known = known || k == wn.recv+"."+wn.name
		}
		if !known {
			bad = append(bad, k+": method not in the list of translated methods ("+fset.Position(fd.Pos()).Filename+")")
		}
	}
	sortStrings(bad)
	// struct layouts (pinned in TieCache.lean: RtCache.lean's structures mirror them)
	t.h.structLayouts(&out, files, []string{"DefaultStatementCache", "DefaultPortalCache", "Statement", "Portal", "PreparedStatement"})
	var qs []string
	for _, b := range bad {
		qs = append(qs, fmt.Sprintf("%q", b))
	}
	fmt.Fprintf(&out, "\n/-- what the translator could not handle (TieCache.lean demands this be empty) -/\ndef untranslatable : List String := [%s]\n", strings.Join(qs, ", "))
	out.WriteString("\nend Pw.TransCache\n")
	return out.String()
}

