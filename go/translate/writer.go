// The part of pwtranslate that is specific to the result writer of /repo/writer.go and /repo/row.go (root
// package `wire`): `commandComplete`, the methods of `dataWriter` (`close`, `Written`, `Columns`, `Empty`,
// `Row`, `Complete`, `Define`), `Columns.Write` / `Column.Write`, `Columns.Define` / `Column.Define` and
// `Columns.CopyIn`.  Output: Pw/Generated/TransWriter.lean (namespace Pw.TransWriter) over
// Pw/Go/RtWriter.lean.
//
// This mode carries its own small statement/expression walker (same continuation-passing scheme as
// main.go, explicit world `w : DWorld`), because the code it reads uses constructs the general scheme does
// not have (range over a slice with index and value, `x++` on a field, slice literals, values of type
// `any`, nil-able slices other than `reader.Msg`):
//
//   - the receiver `writer *dataWriter` is the one dataWriter of the world: `writer.closed` … are
//     `w.dw.closed` …; `writer.client` and every parameter of type `*buffer.Writer` denote the world's
//     buffer.Writer (calls go to Trans.lean through `liftW`); `writer.ctx` and every `context.Context`
//     denote the world's context (`ctx.Err()` = `w.ctxErr`, `TypeMap(ctx)` = `w.typeMap`);
//   - receivers of value type (`columns Columns`, `column Column`) are ordinary first parameters;
//   - `tm.Encode(…)` is the external `encodeExt` (the pgx encoder: `w.encode`);
//   - `if c { x = e }` whose body only assigns pure expressions to locals is `let x := if c then e else x`
//     (no duplication of the continuation); every other `if` duplicates it as in main.go;
//   - `for i, v := range xs {B}`: `xs` is evaluated once into the loop state, `i` runs from 0 to len-1,
//     `v` is `xs[i]` (checked);
//   - package variables `var X = errors.New("…")` are emitted as Lean constants from their initialisers.
//
// Whatever is outside this subset lands in `TransWriter.untranslatable`.
package main

import (
	"fmt"
	"go/ast"
	"go/constant"
	"go/token"
	"go/types"
	"strings"
)

type dwFn struct {
	fuel     bool
	nres     int
	recvKind string // "dataWriter", "Columns", "Column", ""
}

type dwt struct {
	*tr
	fns      map[string]*dwFn  // Lean name -> translated function
	errVars  map[string]string // package error variables: name -> Lean definition
	files    []*ast.File
	recvObj  types.Object // the `*dataWriter` receiver of the current method
	bufW     map[types.Object]bool
	ctxV     map[types.Object]bool
	scope    []param
	res      []string
	namedRes []string
	dfr      []*ast.CallExpr
	lps      []string
	lpN      int
	fuelUsed bool
	lpStack  []loopCtx
	name     string
}

func isEmptyIface(ty types.Type) bool {
	i, ok := ty.Underlying().(*types.Interface)
	return ok && i.NumMethods() == 0
}

func isTMapPtr(ty types.Type) bool {
	p, ok := ty.(*types.Pointer)
	if !ok {
		return false
	}
	n, ok := p.Elem().(*types.Named)
	return ok && n.Obj().Name() == "Map" && n.Obj().Pkg() != nil && strings.HasSuffix(n.Obj().Pkg().Path(), "/pgtype")
}

func isDataWriterPtr(ty types.Type) bool {
	p, ok := ty.(*types.Pointer)
	return ok && namedIn(p.Elem(), wirePkg, "dataWriter")
}

func isReaderPtr(ty types.Type) bool {
	p, ok := ty.(*types.Pointer)
	return ok && namedIn(p.Elem(), bufferPkg, "Reader")
}

// lt: the Lean type of a Go type ("" for the types that denote parts of the world)
func (d *dwt) lt(ty types.Type) string {
	switch {
	case isError(ty):
		return "Option DErr"
	case isContext(ty), isWriterPtr(ty), isReaderPtr(ty), isDataWriterPtr(ty):
		return ""
	case namedIn(ty, wirePkg, "Columns"):
		return "Cols"
	case namedIn(ty, wirePkg, "Column"):
		return "ColumnS"
	case isTMapPtr(ty):
		return "Option TMap"
	case isEmptyIface(ty):
		return "DVal"
	}
	if s, ok := ty.Underlying().(*types.Slice); ok {
		switch {
		case namedIn(s.Elem(), wirePkg, "FormatCode"):
			return "List Int"
		case isEmptyIface(s.Elem()):
			return "List DVal"
		case d.isByteSlice(ty):
			return "Option Bytes"
		}
	}
	if b, ok := ty.Underlying().(*types.Basic); ok {
		switch {
		case b.Kind() == types.Bool:
			return "Bool"
		case b.Kind() == types.String:
			return "Bytes"
		case b.Kind() == types.Uint8:
			return "UInt8"
		case numKind(ty) != "":
			return "Int"
		}
	}
	fail("unsupported type %s", ty)
	return ""
}

func (d *dwt) wrapNum(kind, e string) string {
	switch kind {
	case "u64":
		return "(dwU64 " + e + ")"
	case "i64", "i32", "i16", "u16", "u32":
		return "(" + kind + " " + e + ")"
	}
	return e
}

// isRecv: e is the `*dataWriter` receiver
func (d *dwt) isRecv(e ast.Expr) bool {
	idt, ok := e.(*ast.Ident)
	return ok && d.recvObj != nil && d.objOf(idt) == d.recvObj
}

// worldPart: which part of the world e denotes: "writer" (buffer.Writer), "ctx", "reader", "" (none)
func (d *dwt) worldPart(e ast.Expr) string {
	switch x := e.(type) {
	case *ast.ParenExpr:
		return d.worldPart(x.X)
	case *ast.Ident:
		obj := d.objOf(x)
		switch {
		case d.bufW[obj]:
			return "writer"
		case d.ctxV[obj]:
			return "ctx"
		case obj == d.recvObj && obj != nil:
			return "dw"
		}
	case *ast.SelectorExpr:
		if d.isRecv(x.X) {
			switch x.Sel.Name {
			case "client":
				return "writer"
			case "ctx":
				return "ctx"
			case "reader":
				return "reader"
			}
		}
	}
	return ""
}

var dwFields = map[string]bool{"columns": true, "formats": true, "closed": true, "written": true}

// ex: an expression as a value of Lean type lt(typeOf e); `want` is used for nil and literals
func (d *dwt) ex(e ast.Expr, want string, p *pre) string {
	if idt, ok := e.(*ast.Ident); ok && idt.Name == "nil" {
		switch want {
		case "Option DErr", "Cols", "Option Bytes", "Option TMap":
			return "none"
		case "List Int", "List DVal":
			return "[]"
		}
		fail("nil as %q", want)
	}
	if c, ok := d.constOf(e); ok {
		if want == "UInt8" || numKind(d.typeOf(e)) == "byte" {
			return "(" + c + " : UInt8)"
		}
		return c
	}
	switch e := e.(type) {
	case *ast.ParenExpr:
		return d.ex(e.X, want, p)
	case *ast.Ident:
		obj := d.objOf(e)
		if v, ok := obj.(*types.Var); ok && !v.IsField() && v.Pkg() != nil && v.Parent() == v.Pkg().Scope() {
			return d.pkgErrVar(v)
		}
		if d.worldPart(e) != "" {
			fail("%s (a part of the world) used as a value", e.Name)
		}
		return d.ident(e)
	case *ast.SelectorExpr:
		if d.isRecv(e.X) {
			if !dwFields[e.Sel.Name] {
				fail("field %s of the dataWriter used as a value", e.Sel.Name)
			}
			return "w.dw." + e.Sel.Name
		}
		sel := d.info.Selections[e]
		if sel != nil && sel.Kind() == types.FieldVal && len(sel.Index()) == 1 && d.lt(d.typeOf(e.X)) == "ColumnS" {
			return d.ex(e.X, "ColumnS", p) + "." + e.Sel.Name
		}
		fail("unsupported selector %s", d.src(e))
	case *ast.UnaryExpr:
		if e.Op == token.SUB {
			return d.wrapNum(numKind(d.typeOf(e)), "(- "+d.ex(e.X, "Int", p)+")")
		}
		fail("unsupported unary %s", d.src(e))
	case *ast.BinaryExpr:
		switch e.Op {
		case token.ADD, token.SUB, token.MUL:
			op := map[token.Token]string{token.ADD: "+", token.SUB: "-", token.MUL: "*"}[e.Op]
			nk := numKind(d.typeOf(e))
			if nk == "" || nk == "byte" {
				fail("arithmetic on %s", d.typeOf(e))
			}
			return d.wrapNum(nk, "("+d.ex(e.X, "Int", p)+" "+op+" "+d.ex(e.Y, "Int", p)+")")
		}
		fail("boolean expression %s used as a value", d.src(e))
	case *ast.CompositeLit:
		lt := d.lt(d.typeOf(e))
		if lt != "List Int" {
			fail("composite literal of %s", d.typeOf(e))
		}
		var xs []string
		for _, el := range e.Elts {
			if _, kv := el.(*ast.KeyValueExpr); kv {
				fail("keyed slice literal")
			}
			xs = append(xs, d.ex(el, "Int", p))
		}
		return "([" + strings.Join(xs, ", ") + "] : List Int)"
	case *ast.IndexExpr:
		x := d.ex(e.X, "", p)
		i := d.ex(e.Index, "Int", p)
		v := d.fresh()
		switch d.lt(d.typeOf(e.X)) {
		case "List Int", "List DVal":
			p.add(fmt.Sprintf("chkD (listIndex %s %s) fun %s =>", x, i, v))
		case "Cols":
			p.add(fmt.Sprintf("chkD (listIndex (colsItems %s) %s) fun %s =>", x, i, v))
		default:
			fail("index into %s", d.typeOf(e.X))
		}
		return v
	case *ast.CallExpr:
		rs := d.call(e, p)
		if len(rs) != 1 {
			fail("call %s used as a single value has %d results", d.src(e), len(rs))
		}
		return rs[0]
	}
	fail("unsupported expression %s (%T)", d.src(e), e)
	return ""
}

// pkgErrVar: `var X = errors.New("…")` of the package, emitted as a constant
func (d *dwt) pkgErrVar(v *types.Var) string {
	if _, ok := d.errVars[v.Name()]; ok {
		return v.Name()
	}
	if !isError(v.Type()) {
		fail("package variable %s of type %s", v.Name(), v.Type())
	}
	// the declaration, and no assignment / address-of anywhere in the package
	var text string
	found := false
	for _, f := range d.files {
		ast.Inspect(f, func(n ast.Node) bool {
			switch n := n.(type) {
			case *ast.ValueSpec:
				for i, nm := range n.Names {
					if d.info.Defs[nm] != types.Object(v) {
						continue
					}
					if len(n.Values) != len(n.Names) {
						fail("declaration of %s", v.Name())
					}
					c, ok := n.Values[i].(*ast.CallExpr)
					if !ok || d.src(c.Fun) != "errors.New" {
						fail("initialiser of %s is not errors.New(…)", v.Name())
					}
					tv := d.info.Types[c.Args[0]]
					if tv.Value == nil || tv.Value.Kind() != constant.String {
						fail("initialiser of %s: not a constant string", v.Name())
					}
					text, found = constant.StringVal(tv.Value), true
				}
			case *ast.AssignStmt:
				for _, l := range n.Lhs {
					if idt, ok := l.(*ast.Ident); ok && d.info.Uses[idt] == types.Object(v) {
						fail("package variable %s is assigned", v.Name())
					}
				}
			case *ast.UnaryExpr:
				if idt, ok := n.X.(*ast.Ident); ok && n.Op == token.AND && d.info.Uses[idt] == types.Object(v) {
					fail("address of package variable %s is taken", v.Name())
				}
			}
			return true
		})
	}
	if !found {
		fail("package variable %s: declaration not found", v.Name())
	}
	d.errVars[v.Name()] = fmt.Sprintf("/-- var %s = errors.New(%q) -/\ndef %s : Option DErr := some (DErr.new %s)\n", v.Name(), text, v.Name(), byteList(text))
	return v.Name()
}

// cond: a boolean expression as a decidable Prop
func (d *dwt) cond(e ast.Expr, p *pre) string {
	switch e := e.(type) {
	case *ast.ParenExpr:
		return "(" + d.cond(e.X, p) + ")"
	case *ast.UnaryExpr:
		if e.Op == token.NOT {
			return "(¬ " + d.cond(e.X, p) + ")"
		}
	case *ast.BinaryExpr:
		switch e.Op {
		case token.LAND, token.LOR:
			q := &pre{}
			r := d.cond(e.Y, q)
			if len(q.lines) > 0 {
				fail("checked operation or call on the right of a short-circuit operator: %s", d.src(e))
			}
			op := " ∧ "
			if e.Op == token.LOR {
				op = " ∨ "
			}
			return "(" + d.cond(e.X, p) + op + r + ")"
		case token.EQL, token.NEQ:
			op := " = "
			if e.Op == token.NEQ {
				op = " ≠ "
			}
			lt := d.lt(d.typeOf(e.X))
			if lt == "" || lt == "DVal" {
				fail("comparison of %s", d.typeOf(e.X))
			}
			return "(" + d.ex(e.X, lt, p) + op + d.ex(e.Y, lt, p) + ")"
		case token.LSS, token.LEQ, token.GTR, token.GEQ:
			op := map[token.Token]string{token.LSS: " < ", token.LEQ: " ≤ ", token.GTR: " > ", token.GEQ: " ≥ "}[e.Op]
			if d.lt(d.typeOf(e.X)) != "Int" {
				fail("ordered comparison of %s", d.typeOf(e.X))
			}
			return "(" + d.ex(e.X, "Int", p) + op + d.ex(e.Y, "Int", p) + ")"
		}
	case *ast.Ident, *ast.SelectorExpr, *ast.CallExpr:
		if d.lt(d.typeOf(e)) == "Bool" {
			return "(" + d.ex(e, "Bool", p) + " = true)"
		}
	}
	fail("unsupported condition %s", d.src(e))
	return ""
}

// args: the Lean arguments of a call of a translated function; parameters that denote parts of the world
// must be given that part
func (d *dwt) args(c *ast.CallExpr, sig *types.Signature, p *pre) string {
	if sig.Variadic() {
		fail("variadic call %s", d.src(c))
	}
	out := ""
	for i, a := range c.Args {
		pt := sig.Params().At(i).Type()
		lt := d.lt(pt)
		if lt == "" {
			want := map[bool]string{true: "ctx", false: "writer"}[isContext(pt)]
			if isReaderPtr(pt) {
				want = "reader"
			}
			if d.worldPart(a) != want {
				fail("argument %s of %s is not the world's %s", d.src(a), d.src(c.Fun), want)
			}
			continue
		}
		out += " " + d.ex(a, lt, p)
	}
	return out
}

// call: any call; the Lean expressions of its results
func (d *dwt) call(c *ast.CallExpr, p *pre) []string {
	fun := d.src(c.Fun)
	if tv, ok := d.info.Types[c.Fun]; ok && tv.IsType() {
		from, to := d.typeOf(c.Args[0]), tv.Type
		fk, tk := numKind(from), numKind(to)
		x := d.ex(c.Args[0], "Int", p)
		switch {
		case isStringType(from) && isStringType(to):
			return []string{x}
		case tk == "byte" && fk == "byte":
			return []string{x}
		case tk == "byte" && fk != "":
			return []string{"(byteOf " + x + ")"}
		case tk != "" && fk == "byte":
			return []string{"(intOfByte " + x + ")"}
		case tk != "" && fk != "":
			return []string{d.wrapNum(tk, x)}
		}
		fail("unsupported conversion %s", d.src(c))
	}
	switch fun {
	case "len":
		a := c.Args[0]
		switch d.lt(d.typeOf(a)) {
		case "Cols":
			return []string{"(colsLen " + d.ex(a, "Cols", p) + ")"}
		case "List Int", "List DVal":
			return []string{"(" + d.ex(a, "", p) + ".length : Int)"}
		case "Option Bytes":
			return []string{"(bytesLen " + d.ex(a, "", p) + ")"}
		}
		fail("len of %s", d.typeOf(a))
	case "make":
		if d.lt(d.typeOf(c)) != "Option Bytes" || len(c.Args) != 2 {
			fail("make: %s", d.src(c))
		}
		if n, ok := d.constOf(c.Args[1]); !ok || n != "0" {
			fail("make of a non-empty byte slice")
		}
		return []string{"(some ([] : Bytes))"}
	case "errors.New":
		tv := d.info.Types[c.Args[0]]
		if tv.Value == nil || tv.Value.Kind() != constant.String {
			fail("errors.New of a non-constant")
		}
		return []string{"(some (DErr.new " + byteList(constant.StringVal(tv.Value)) + "))"}
	case "fmt.Errorf":
		tv := d.info.Types[c.Args[0]]
		if tv.Value == nil || tv.Value.Kind() != constant.String {
			fail("fmt.Errorf with a non-constant format")
		}
		format := constant.StringVal(tv.Value)
		if strings.Count(format, "%") != strings.Count(format, "%d") || strings.Count(format, "%d") != len(c.Args)-1 {
			fail("fmt.Errorf: only %%d verbs, one per operand: %q", format)
		}
		var as []string
		for _, a := range c.Args[1:] {
			nk := numKind(d.typeOf(a))
			if nk == "" || nk == "byte" {
				fail("fmt.Errorf %%d with a %s operand", d.typeOf(a))
			}
			as = append(as, d.ex(a, "Int", p))
		}
		return []string{"(some (DErr.errorf " + byteList(format) + " [" + strings.Join(as, ", ") + "]))"}
	case "TypeMap":
		if fn := d.calledFunc(c); fn == nil || fn.Pkg() == nil || fn.Pkg().Path() != wirePkg || d.worldPart(c.Args[0]) != "ctx" {
			fail("TypeMap of something else than the world's context")
		}
		return []string{"w.typeMap"}
	}
	fn := d.calledFunc(c)
	if fn == nil {
		fail("unsupported call %s", d.src(c))
	}
	sig := fn.Type().(*types.Signature)
	s, isSel := c.Fun.(*ast.SelectorExpr)
	if isSel {
		sel := d.info.Selections[s]
		if sel != nil && sel.Kind() == types.MethodVal {
			if len(sel.Index()) != 1 {
				fail("method %s reached through an embedded field", d.src(s))
			}
			switch {
			case d.worldPart(s.X) == "ctx" && fn.Name() == "Err":
				return []string{"w.ctxErr"}
			case d.worldPart(s.X) == "writer":
				lean := "Writer_" + fn.Name()
				if !d.bufFns[lean] {
					fail("buffer.Writer.%s is not among the functions of Trans.lean", fn.Name())
				}
				if d.needFuel[lean] {
					fail("buffer.Writer.%s takes fuel", fn.Name())
				}
				args := ""
				for i, a := range c.Args {
					pt := sig.Params().At(i).Type()
					switch {
					case d.isByteSlice(pt):
						args += " (optBytes " + d.ex(a, "Option Bytes", p) + ")"
					case numKind(pt) == "byte":
						args += " " + d.ex(a, "UInt8", p)
					default:
						args += " " + d.ex(a, d.lt(pt), p)
					}
				}
				r := d.fresh()
				p.add(fmt.Sprintf("(liftW (Trans.%s%s) w).bind fun %s w =>", lean, args, r))
				rs := tupleProj(r, sig.Results().Len())
				for i := range rs {
					if isError(sig.Results().At(i).Type()) {
						rs[i] = "(liftErrD " + rs[i] + ")"
					}
				}
				return rs
			case isTMapPtr(d.typeOf(s.X)) && fn.Name() == "Encode":
				if len(c.Args) != 4 {
					fail("tm.Encode with %d arguments", len(c.Args))
				}
				r := d.fresh()
				p.add(fmt.Sprintf("(encodeExt %s %s %s %s %s w).bind fun %s w =>", d.ex(s.X, "Option TMap", p),
					d.ex(c.Args[0], "Int", p), d.ex(c.Args[1], "Int", p), d.ex(c.Args[2], "DVal", p), d.ex(c.Args[3], "Option Bytes", p), r))
				return []string{r + ".1", r + ".2"}
			}
			// a method of this package: on the dataWriter of the world, or on a Columns / Column value
			rt := sig.Recv().Type()
			if pt, ok := rt.(*types.Pointer); ok {
				rt = pt.Elem()
			}
			nm, ok := rt.(*types.Named)
			if !ok || nm.Obj().Pkg() == nil || nm.Obj().Pkg().Path() != wirePkg {
				fail("method call %s", d.src(c))
			}
			lean := nm.Obj().Name() + "_" + fn.Name()
			f := d.fns[lean]
			if f == nil {
				fail("call of %s.%s, which is not translated (yet)", nm.Obj().Name(), fn.Name())
			}
			args := ""
			if f.fuel {
				args, d.fuelUsed = " fuel", true
			}
			if f.recvKind == "dataWriter" {
				if d.worldPart(s.X) != "dw" {
					fail("method of dataWriter called on %s", d.src(s.X))
				}
			} else {
				args += " " + d.ex(s.X, d.lt(sig.Recv().Type()), p)
			}
			args += d.args(c, sig, p)
			r := d.fresh()
			p.add(fmt.Sprintf("(%s%s w).bind fun %s w =>", lean, args, r))
			return tupleProj(r, sig.Results().Len())
		}
	}
	if sig.Recv() == nil && fn.Pkg() != nil && fn.Pkg().Path() == wirePkg {
		f := d.fns[fn.Name()]
		if f == nil {
			fail("call of %s, which is not translated (yet)", fn.Name())
		}
		args := ""
		if f.fuel {
			args, d.fuelUsed = " fuel", true
		}
		args += d.args(c, sig, p)
		r := d.fresh()
		p.add(fmt.Sprintf("(%s%s w).bind fun %s w =>", id(fn.Name()), args, r))
		return tupleProj(r, sig.Results().Len())
	}
	fail("unsupported call %s", d.src(c))
	return nil
}

func (d *dwt) emit(p *pre, depth int, out *[]string) {
	for _, l := range p.lines {
		*out = append(*out, ind(depth)+l)
	}
}

func (d *dwt) declare(name, typ string) {
	for _, v := range d.scope {
		if v.name == name {
			return
		}
	}
	d.scope = append(d.scope, param{name, typ})
}

// set: `lhs = val`
func (d *dwt) set(lhs ast.Expr, val string, depth int, out *[]string) {
	switch l := lhs.(type) {
	case *ast.Ident:
		if l.Name == "_" {
			return
		}
		if d.worldPart(l) != "" {
			fail("assignment to %s (a part of the world)", l.Name)
		}
		lt := d.lt(d.objOf(l).Type())
		*out = append(*out, fmt.Sprintf("%slet %s : %s := %s", ind(depth), d.ident(l), lt, val))
		d.declare(d.ident(l), lt)
		return
	case *ast.SelectorExpr:
		if d.isRecv(l.X) && dwFields[l.Sel.Name] {
			*out = append(*out, fmt.Sprintf("%slet w := { w with dw := { w.dw with %s := %s } }", ind(depth), l.Sel.Name, val))
			return
		}
	}
	fail("unsupported assignment target %s", d.src(lhs))
}

func (d *dwt) runDefers(depth int, out *[]string) {
	for i := len(d.dfr) - 1; i >= 0; i-- {
		q := &pre{}
		d.call(d.dfr[i], q)
		d.emit(q, depth, out)
	}
}

// pureAssigns: the statements are all `local = pure expression`; returns (name, type, value) triples
func (d *dwt) pureAssigns(list []ast.Stmt) ([][3]string, bool) {
	var res [][3]string
	for _, s := range list {
		a, ok := s.(*ast.AssignStmt)
		if !ok || a.Tok != token.ASSIGN || len(a.Lhs) != 1 || len(a.Rhs) != 1 {
			return nil, false
		}
		l, ok := a.Lhs[0].(*ast.Ident)
		if !ok || l.Name == "_" || d.worldPart(l) != "" {
			return nil, false
		}
		if _, isCall := a.Rhs[0].(*ast.CallExpr); isCall {
			if tv, ok := d.info.Types[a.Rhs[0].(*ast.CallExpr).Fun]; !ok || !tv.IsType() {
				return nil, false
			}
		}
		lt := d.lt(d.objOf(l).Type())
		q := &pre{}
		tmp := d.tmp
		v := d.ex(a.Rhs[0], lt, q)
		if len(q.lines) > 0 {
			d.tmp = tmp
			return nil, false
		}
		res = append(res, [3]string{d.ident(l), lt, v})
	}
	return res, len(res) > 0
}

func (d *dwt) stmts(list []ast.Stmt, depth int, out *[]string, k func(depth int, out *[]string)) {
	if len(list) == 0 {
		k(depth, out)
		return
	}
	s, rest := list[0], list[1:]
	next := func(dp int, o *[]string) { d.stmts(rest, dp, o, k) }
	switch s := s.(type) {
	case *ast.BlockStmt:
		d.stmts(append(append([]ast.Stmt{}, s.List...), rest...), depth, out, k)
	case *ast.DeferStmt:
		if len(d.lpStack) > 0 {
			fail("defer inside a loop")
		}
		d.dfr = append(d.dfr, s.Call)
		next(depth, out)
	case *ast.ExprStmt:
		c, ok := s.X.(*ast.CallExpr)
		if !ok {
			fail("expression statement %s", d.src(s))
		}
		p := &pre{}
		d.call(c, p)
		d.emit(p, depth, out)
		next(depth, out)
	case *ast.IncDecStmt:
		nk := numKind(d.typeOf(s.X))
		if nk == "" || nk == "byte" {
			fail("%s on %s", s.Tok, d.typeOf(s.X))
		}
		op := map[token.Token]string{token.INC: "+", token.DEC: "-"}[s.Tok]
		p := &pre{}
		v := d.wrapNum(nk, "("+d.ex(s.X, "Int", p)+" "+op+" 1)")
		d.emit(p, depth, out)
		d.set(s.X, v, depth, out)
		next(depth, out)
	case *ast.AssignStmt:
		p := &pre{}
		switch {
		case s.Tok != token.ASSIGN && s.Tok != token.DEFINE:
			fail("assignment operator %s", s.Tok)
		case len(s.Rhs) == 1 && len(s.Lhs) > 1:
			c, ok := s.Rhs[0].(*ast.CallExpr)
			if !ok {
				fail("multi-assignment from %s", d.src(s.Rhs[0]))
			}
			rs := d.call(c, p)
			if len(rs) != len(s.Lhs) {
				fail("arity of %s", d.src(s))
			}
			d.emit(p, depth, out)
			for i, l := range s.Lhs {
				d.set(l, rs[i], depth, out)
			}
		case len(s.Rhs) == 1 && len(s.Lhs) == 1:
			want := ""
			if idt, ok := s.Lhs[0].(*ast.Ident); ok && idt.Name == "_" {
				want = d.lt(d.typeOf(s.Rhs[0]))
			} else if idt, ok := s.Lhs[0].(*ast.Ident); ok {
				want = d.lt(d.objOf(idt).Type())
			} else {
				want = d.lt(d.typeOf(s.Lhs[0]))
			}
			v := d.ex(s.Rhs[0], want, p)
			d.emit(p, depth, out)
			d.set(s.Lhs[0], v, depth, out)
		default:
			fail("assignment shape %s", d.src(s))
		}
		next(depth, out)
	case *ast.ReturnStmt:
		p := &pre{}
		var vals []string
		if len(s.Results) == 0 {
			vals = append(vals, d.namedRes...)
		} else if len(s.Results) == 1 && len(d.res) > 1 {
			c, ok := s.Results[0].(*ast.CallExpr)
			if !ok {
				fail("return of %s", d.src(s))
			}
			vals = d.call(c, p)
		} else {
			for i, r := range s.Results {
				vals = append(vals, d.ex(r, d.res[i], p))
			}
		}
		d.emit(p, depth, out)
		if len(d.namedRes) > 0 && len(d.dfr) > 0 {
			fail("deferred calls in a function with named results")
		}
		d.runDefers(depth, out)
		v := "()"
		if len(vals) > 0 {
			v = "(" + strings.Join(vals, ", ") + ")"
		}
		*out = append(*out, fmt.Sprintf("%s.ok %s w", ind(depth), v))
	case *ast.IfStmt:
		if s.Init != nil {
			fail("if with an init statement")
		}
		p := &pre{}
		c := d.cond(s.Cond, p)
		d.emit(p, depth, out)
		if s.Else == nil {
			if as, ok := d.pureAssigns(s.Body.List); ok {
				for _, a := range as {
					*out = append(*out, fmt.Sprintf("%slet %s : %s := if %s then %s else %s", ind(depth), a[0], a[1], c, a[2], a[0]))
				}
				next(depth, out)
				return
			}
		}
		*out = append(*out, fmt.Sprintf("%sif %s then", ind(depth), c))
		saved, savedScope := d.dfr, len(d.scope)
		d.stmts(s.Body.List, depth+1, out, next)
		d.dfr, d.scope = saved, d.scope[:savedScope]
		*out = append(*out, ind(depth)+"else")
		if s.Else != nil {
			d.stmts([]ast.Stmt{s.Else}, depth+1, out, next)
		} else {
			next(depth+1, out)
		}
		d.dfr, d.scope = saved, d.scope[:savedScope]
	case *ast.BranchStmt:
		fail("%s statement", s.Tok)
	case *ast.RangeStmt:
		d.rangeLoop(s, depth, out, next)
	default:
		fail("unsupported statement %s (%T)", d.src(s), s)
	}
}

// rangeLoop: `for [i[, v]] := range xs {B}` over a slice (Cols, []FormatCode, []any)
func (d *dwt) rangeLoop(s *ast.RangeStmt, depth int, out *[]string, next func(int, *[]string)) {
	xt := d.lt(d.typeOf(s.X))
	var elem string
	switch xt {
	case "Cols":
		elem = "ColumnS"
	case "List Int":
		elem = "Int"
	case "List DVal":
		elem = "DVal"
	default:
		fail("range over %s", d.typeOf(s.X))
	}
	if s.Tok != token.DEFINE && (s.Key != nil || s.Value != nil) {
		fail("range loop assigning to existing variables")
	}
	p := &pre{}
	x := d.ex(s.X, xt, p)
	d.emit(p, depth, out)
	xs, i := d.fresh(), d.fresh()
	if k, ok := s.Key.(*ast.Ident); ok && k.Name != "_" {
		i = d.ident(k)
	} else if s.Key != nil && !ok {
		fail("range key %s", d.src(s.Key))
	}
	list := x
	if xt == "Cols" {
		list = "(colsItems " + x + ")"
	}
	*out = append(*out, fmt.Sprintf("%slet %s : List %s := %s", ind(depth), xs, elem, list))
	*out = append(*out, fmt.Sprintf("%slet %s : Int := 0", ind(depth), i))
	d.lpN++
	name := fmt.Sprintf("%s.loop%d", d.name, d.lpN)
	vars := append(append([]param{}, d.scope...), param{xs, "List " + elem}, param{i, "Int"})
	sig, args := "", ""
	for _, v := range vars {
		sig += fmt.Sprintf(" (%s : %s)", v.name, v.typ)
		args += " " + v.name
	}
	var def []string
	def = append(def, fmt.Sprintf("def %s (fuel : Nat)%s (w : DWorld) : DOut (%s) :=", name, sig, tupleType(d.res)))
	def = append(def, "  match fuel with", "  | 0 => .fuel", "  | fuel + 1 =>")
	def = append(def, fmt.Sprintf("    if (%s < (%s.length : Int)) then", i, xs))
	d.lpStack = append(d.lpStack, loopCtx{name: name, args: args})
	savedScope := len(d.scope)
	d.declare(xs, "List "+elem)
	d.declare(i, "Int")
	bd := 3
	if v, ok := s.Value.(*ast.Ident); ok && v.Name != "_" {
		def = append(def, fmt.Sprintf("%schkD (listIndex %s %s) fun %s =>", ind(bd), xs, i, d.ident(v)))
		d.declare(d.ident(v), elem)
	} else if s.Value != nil && !ok {
		fail("range value %s", d.src(s.Value))
	}
	d.stmts(s.Body.List, bd, &def, func(dp int, o *[]string) {
		*o = append(*o, fmt.Sprintf("%slet %s := (%s + 1)", ind(dp), i, i))
		*o = append(*o, fmt.Sprintf("%s%s fuel%s w", ind(dp), name, args))
	})
	d.lpStack = d.lpStack[:len(d.lpStack)-1]
	d.scope = d.scope[:savedScope]
	def = append(def, "    else")
	next(3, &def)
	d.lps = append(d.lps, strings.Join(def, "\n"))
	*out = append(*out, fmt.Sprintf("%s%s fuel%s w", ind(depth), name, args))
}

func (d *dwt) function(fd *ast.FuncDecl) (defs string, err string) {
	defer func() {
		if r := recover(); r != nil {
			if u, ok := r.(unsupported); ok {
				defs, err = "", u.msg
				return
			}
			panic(r)
		}
	}()
	d.tr.tmp, d.tr.fnName = 0, fd.Name.Name
	d.recvObj, d.bufW, d.ctxV = nil, map[types.Object]bool{}, map[types.Object]bool{}
	d.scope, d.res, d.namedRes, d.dfr, d.lps, d.lpN, d.fuelUsed, d.lpStack = nil, nil, nil, nil, nil, 0, false, nil
	d.nameVars(fd)
	d.name = fd.Name.Name
	recvKind := ""
	sig := ""
	addParam := func(n *ast.Ident, ty types.Type) {
		obj := d.objOf(n)
		switch {
		case isWriterPtr(ty):
			d.bufW[obj] = true
		case isContext(ty):
			d.ctxV[obj] = true
		case isDataWriterPtr(ty):
			fail("a *dataWriter parameter")
		default:
			lt := d.lt(ty)
			if lt == "" {
				fail("parameter %s of type %s", n.Name, ty)
			}
			sig += fmt.Sprintf(" (%s : %s)", d.ident(n), lt)
			d.declare(d.ident(n), lt)
		}
	}
	if fd.Recv != nil {
		f := fd.Recv.List[0]
		rt := d.typeOf(f.Type)
		switch {
		case isDataWriterPtr(rt):
			recvKind = "dataWriter"
			if len(f.Names) > 0 {
				d.recvObj = d.objOf(f.Names[0])
			}
		case namedIn(rt, wirePkg, "Columns"), namedIn(rt, wirePkg, "Column"):
			recvKind = rt.(*types.Named).Obj().Name()
			if len(f.Names) == 0 {
				fail("value receiver without a name")
			}
			addParam(f.Names[0], rt)
		default:
			fail("receiver %s", rt)
		}
		d.name = recvKind + "_" + fd.Name.Name
	}
	for _, f := range fd.Type.Params.List {
		if len(f.Names) == 0 {
			fail("unnamed parameter")
		}
		for _, n := range f.Names {
			addParam(n, d.typeOf(f.Type))
		}
	}
	var inits []string
	if fd.Type.Results != nil {
		for _, f := range fd.Type.Results.List {
			ty := d.typeOf(f.Type)
			if p, ok := ty.(*types.Pointer); ok && namedIn(p.Elem(), wirePkg, "CopyReader") {
				fail("result of type *CopyReader")
			}
			lt := d.lt(ty)
			if lt == "" {
				fail("result of type %s", ty)
			}
			if len(f.Names) == 0 {
				d.res = append(d.res, lt)
			}
			for _, n := range f.Names {
				d.res = append(d.res, lt)
				zero := map[string]string{"Int": "0", "Bool": "false", "Option DErr": "none", "Bytes": "[]"}[lt]
				if zero == "" || n.Name == "_" {
					fail("named result %s of type %s", n.Name, ty)
				}
				d.namedRes = append(d.namedRes, d.ident(n))
				inits = append(inits, fmt.Sprintf("  let %s : %s := %s", d.ident(n), lt, zero))
				d.declare(d.ident(n), lt)
			}
		}
	}
	var body []string
	d.stmts(fd.Body.List, 1, &body, func(dp int, o *[]string) {
		if len(d.res) != 0 {
			fail("missing return")
		}
		d.runDefers(dp, o)
		*o = append(*o, ind(dp)+".ok () w")
	})
	fuel := ""
	if len(d.lps) > 0 || d.fuelUsed {
		fuel = " (fuel : Nat)"
	}
	d.fns[d.name] = &dwFn{fuel: fuel != "", nres: len(d.res), recvKind: recvKind}
	var b strings.Builder
	for _, l := range d.lps {
		b.WriteString(l + "\n\n")
	}
	recv := ""
	if fd.Recv != nil {
		recv = "(" + d.src(fd.Recv.List[0].Type) + ") "
	}
	fmt.Fprintf(&b, "/-- %s%s -/\n", recv, strings.ReplaceAll(d.src(fd.Type), "-/", "- /"))
	fmt.Fprintf(&b, "def %s%s%s (w : DWorld) : DOut (%s) :=\n", id(d.name), fuel, sig, tupleType(d.res))
	for _, l := range inits {
		b.WriteString(l + "\n")
	}
	b.WriteString(strings.Join(body, "\n") + "\n")
	return b.String(), ""
}

// translateWriter: writer.go + row.go -> TransWriter.lean
func translateWriter(root string, bt *tr) string {
	fset, files, info := loadWire(root)
	d := &dwt{tr: &tr{fset: fset, info: info, needFuel: bt.needFuel, bufFns: bt.bufFns}, fns: map[string]*dwFn{},
		errVars: map[string]string{}, files: files}
	var out strings.Builder
	out.WriteString("/- GENERATED by go/translate (-writer) from writer.go and row.go of /repo's working tree on every check run. Do not edit. -/\n")
	out.WriteString("import Pw.Generated.Trans\nimport Pw.Go.RtWriter\nset_option linter.unusedVariables false\nnamespace Pw.TransWriter\nopen Pw Pw.Go\n\n")
	var bad []string
	want := []struct{ name, file string }{
		{"commandComplete", "writer.go"}, {"dataWriter.close", "writer.go"}, {"dataWriter.Written", "writer.go"},
		{"dataWriter.Columns", "writer.go"}, {"dataWriter.Empty", "writer.go"},
		{"Column.Write", "row.go"}, {"Columns.Write", "row.go"}, {"dataWriter.Row", "writer.go"},
		{"dataWriter.Complete", "writer.go"},
		{"Column.Define", "row.go"}, {"Columns.Define", "row.go"}, {"dataWriter.Define", "writer.go"},
		{"Columns.CopyIn", "row.go"},
	}
	decls := funcDecls(files)
	var body strings.Builder
	for _, wn := range want {
		fd, ok := decls[wn.name]
		if !ok {
			bad = append(bad, wn.name+": not found")
			continue
		}
		if pos := fset.Position(fd.Pos()); pos.Filename != wn.file {
			bad = append(bad, wn.name+": declared in "+pos.Filename)
			continue
		}
		defs, e := d.function(fd)
		if e != "" {
			bad = append(bad, wn.name+": "+e)
			continue
		}
		body.WriteString(defs + "\n")
	}
	// package variables read by the functions above (in order of first use)
	var names []string
	for n := range d.errVars {
		names = append(names, n)
	}
	sortStrings(names)
	for _, n := range names {
		out.WriteString(d.errVars[n] + "\n")
	}
	out.WriteString(body.String())
	d.structLayouts(&out, files, []string{"dataWriter", "Column"})
	var qs []string
	for _, b := range bad {
		qs = append(qs, fmt.Sprintf("%q", b))
	}
	fmt.Fprintf(&out, "\n/-- what the translator could not handle (TieDataWriter.lean demands this be empty) -/\ndef untranslatable : List String := [%s]\n", strings.Join(qs, ", "))
	out.WriteString("\nend Pw.TransWriter\n")
	return out.String()
}

func sortStrings(a []string) {
	for i := 1; i < len(a); i++ {
		for j := i; j > 0 && a[j] < a[j-1]; j-- {
			a[j], a[j-1] = a[j-1], a[j]
		}
	}
}
