#!/bin/bash
# Confirm every sub-agent-produced seeded change in a scratch worktree (outside /repo and /verif):
# applies, builds, existing suite passes, demo fails with the change and passes without it.
export GOFLAGS=-mod=mod GOPROXY=off GOSUMDB=off GOTOOLCHAIN=local
WT=/tmp/confirm_wt
git -C /repo worktree remove --force $WT 2>/dev/null
git -C /repo worktree add -q --detach $WT HEAD
OUT=/tmp/confirm_results.txt; : > $OUT
for d in /tmp/seed/C*/out; do
  id=$(basename $(dirname $d))
  for m in m1 m2; do
    [ -f $d/$m.diff ] || continue
    demo=$d/${m}_demo_test.go
    pkgdir=.
    grep -q "^package buffer" $demo && pkgdir=pkg/buffer
    cd $WT && git checkout -q -- . && git clean -fdq
    # demo on the clean tree
    cp $demo $WT/$pkgdir/zz_${m}_demo_test.go
    clean=$(go test -vet=off -count=1 ./$pkgdir/ 2>&1 | tail -1 | cut -c1-40)
    rm -f $WT/$pkgdir/zz_${m}_demo_test.go
    if ! git apply $d/$m.diff 2>/dev/null; then echo "$id $m APPLY-FAILED" >> $OUT; continue; fi
    build=$(go build ./... 2>&1 | tail -1)
    suite=$(go test -vet=off -count=1 ./... 2>&1 | grep -v "no test files" | grep -c "^ok")
    cp $demo $WT/$pkgdir/zz_${m}_demo_test.go
    mut=$(go test -vet=off -count=1 ./$pkgdir/ 2>&1 | tail -1 | cut -c1-40)
    rm -f $WT/$pkgdir/zz_${m}_demo_test.go
    echo "$id $m build=[$build] suite_ok_pkgs=$suite clean=[$clean] mutated=[$mut]" >> $OUT
  done
done
cd / && git -C /repo worktree remove --force $WT
echo DONE >> $OUT
