#!/usr/bin/env python3
"""Rewrite the tables of DESIGN.md §11 from seeded/results.json and seeded/reverted.json."""
import json, os, re
R = '/verif'
res = json.load(open(R + '/seeded/results.json'))
rev = json.load(open(R + '/seeded/reverted.json')) if os.path.exists(R + '/seeded/reverted.json') else {}
kf = {f["id"]: f for f in json.load(open(R + '/known_findings.json'))["findings"]}
out = []
out.append("`tools/seedtest.py` applies each seeded change to `/repo`'s working tree (`git apply`), runs the quick check of")
out.append("its property, and undoes it (`git checkout -- .`); nothing is ever committed in `/repo`. The changes were written by")
out.append("fresh sub-agents that saw only the property text and a scratch worktree; each compiles and passes the existing suite")
out.append("(`tools/confirm_seeds.sh`, recorded in `meta.json`). \"concrete\" = the VIOLATION line carries a replay with a failing")
out.append("input; \"broken tie\" = reported with `no-failing-input-found`. The failing inputs are kept in `corpus/` and run first.")
out.append("")
out.append("| Seeded change | What it does | Result of `./check.py <Cxx> quick` |")
out.append("|---|---|---|")
for k in sorted(res):
    m = json.load(open('%s/seeded/%s/meta.json' % (R, k)))
    what = re.sub(r'^#+\s*(C\d+\s*[/:-]?\s*)?(seeded change\s*)?(m\d|change \d)\s*[-:–—]*\s*', '', m['needs_to_manifest'], flags=re.I).strip()
    v = res[k]
    r = v['status'] + (", concrete replay" if v.get('concrete') else (", broken tie" if v['status'] == 'caught' else ""))
    out.append("| %s | %s | %s (%ss) |" % (k, what.replace('|', '/'), r, v.get('wall_s', '?')))
out.append("")
out.append("`tools/reverttest.py` reverts each `fix:` commit in the working tree (`git revert --no-commit`, then `git reset --hard")
out.append("HEAD`) and runs the quick check of the property the finding is filed under:")
out.append("")
out.append("| Fix reverted | Property | Result |")
out.append("|---|---|---|")
for k, v in rev.items():
    r = v['status']
    if r == 'caught':
        r += ", concrete replay" if v.get('concrete') else ", broken tie"
    if v.get('note'):
        r = ("not reported, correctly" if v['status'] == 'MISSED' else r) + " — " + v['note']
    out.append("| %s (%s) | %s | %s |" % (k, v['commit'], v['property'], r))
text = "\n".join(out)
p = R + '/DESIGN.md'
s = open(p).read()
if '@@TABLES@@' in s:
    s = s.replace('@@TABLES@@', '<!-- TABLES:BEGIN -->\n' + text + '\n<!-- TABLES:END -->')
else:
    s = re.sub(r'<!-- TABLES:BEGIN -->.*<!-- TABLES:END -->', lambda m: '<!-- TABLES:BEGIN -->\n' + text + '\n<!-- TABLES:END -->', s, flags=re.S)
open(p, 'w').write(s)
print("tables written:", len(res), "seeds,", len(rev), "reverts")
