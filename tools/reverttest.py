#!/usr/bin/env python3
"""For every repaired defect listed in known_findings.json: revert its fix: commit in /repo's working
tree (never committed), run the quick check of its property, undo. A check that is right must report
the violation again. Writes seeded/reverted.json and harvests the failing inputs into corpus/.
usage: reverttest.py [Dxx ...]"""
import os, sys, json, subprocess, time
sys.path.insert(0, '/verif'); sys.path.insert(0, '/verif/tools')
from harvest import harvest
want = set(sys.argv[1:])
kf = json.load(open('/verif/known_findings.json'))["findings"]
rp = '/verif/seeded/reverted.json'
out = json.load(open(rp)) if os.path.exists(rp) else {}
env = dict(os.environ, GOFLAGS='-mod=mod', GOPROXY='off', GOSUMDB='off', GOTOOLCHAIN='local')
NOTES = {
    "D05": "harmless on the current tree: since the reassembly rewrite 2074445 neither COPY reader looks at reader.Msg "
           "before it has fetched a message, so dropping the surplus again in NewCopyReader is redundant; C03, C13 and C14 "
           "pass on the reverted tree (only C04's list of slice expressions changes)",
}
def git(*a):
    return subprocess.run(['git', '-C', '/repo'] + list(a), stdout=subprocess.PIPE, stderr=subprocess.STDOUT, text=True)
for f in kf:
    if f["status"] != "fixed" or (want and f["id"] not in want):
        continue
    assert git('status', '--porcelain').stdout == '', "repo dirty"
    rebreak = '/verif/seeded/rebreak/%s.diff' % f["id"]
    how = "git revert"
    if os.path.exists(rebreak):
        # the commit no longer reverts mechanically (later commits touch the same lines, or build on
        # what it introduced): a hand-made patch restores the original behaviour at the same place
        r = git('apply', rebreak)
        how = "seeded/rebreak/%s.diff (the commit does not revert mechanically)" % f["id"]
    else:
        r = git('revert', '--no-commit', f["commit"])
    try:
        if r.returncode != 0:
            out[f["id"]] = dict(property=f["property"], commit=f["commit"], status="revert-conflicts-with-later-commits")
            continue
        b = subprocess.run(['go', 'build', './...'], cwd='/repo', env=env, stdout=subprocess.PIPE, stderr=subprocess.STDOUT, text=True)
        if b.returncode != 0:
            out[f["id"]] = dict(property=f["property"], commit=f["commit"], status="reverted-tree-does-not-build")
            continue
        t = time.time()
        c = subprocess.run(['./check.py', f["property"], 'quick'], cwd='/verif', stdout=subprocess.PIPE, stderr=subprocess.PIPE, text=True)
        viol = [l for l in c.stdout.split('\n') if l.startswith('VIOLATION')]
        out[f["id"]] = dict(property=f["property"], commit=f["commit"], status="caught" if c.returncode == 1 and viol else "MISSED",
                            line=(viol or [''])[0], concrete=bool(viol) and 'no-failing-input-found' not in viol[0],
                            wall_s=round(time.time() - t, 1), summary=c.stdout.strip().split('\n')[-1], how=how)
        if viol and 'no-failing-input-found' not in viol[0]:
            rf = [x[len('replay='):] for x in viol[0].split() if x.startswith('replay=')]
            if rf:
                out[f["id"]]['corpus_cases'] = harvest(os.path.join('/verif', rf[0]), f["property"], 'fixed-' + f["id"])
    finally:
        git('revert', '--abort')
        git('reset', '--hard', 'HEAD')
    if f["id"] in NOTES:
        out[f["id"]]["note"] = NOTES[f["id"]]
    print(f["id"], out[f["id"]]["status"], out[f["id"]].get("line", ""), flush=True)
for k, n in NOTES.items():
    if k in out:
        out[k]['note'] = n
json.dump(out, open(rp, 'w'), indent=1)
for pid in sorted({v["property"] for v in out.values()}):
    subprocess.run(['./check.py', pid, 'quick'], cwd='/verif', stdout=subprocess.DEVNULL)
subprocess.run(['rm', '-rf', '/verif/replays'])
