#!/usr/bin/env python3
"""Confirm sub-agent-produced seeded changes in a scratch worktree (outside /repo and /verif) and import the
confirmed ones into /verif/seeded/<Cxx>-<m>/. usage: intake.py <seed-root> <variant> [<variant> ...] [-- Cxx ...]
A change is confirmed when: the diff applies to a clean checkout of /repo's HEAD, the tree builds, the existing
suite passes, the demo test passes without the change and fails with it."""
import os, sys, json, subprocess, shutil, re
args = sys.argv[1:]
only = []
if '--' in args:
    i = args.index('--'); only = args[i + 1:]; args = args[:i]
root, variants = args[0], args[1:]
env = dict(os.environ, GOFLAGS='-mod=mod', GOPROXY='off', GOSUMDB='off', GOTOOLCHAIN='local')
WT = '/tmp/intake_wt'
def sh(cmd, cwd=None):
    return subprocess.run(cmd, cwd=cwd, env=env, stdout=subprocess.PIPE, stderr=subprocess.STDOUT, text=True, shell=isinstance(cmd, str))
sh(['git', '-C', '/repo', 'worktree', 'remove', '--force', WT])
assert sh(['git', '-C', '/repo', 'worktree', 'add', '-q', '--detach', WT, 'HEAD']).returncode == 0
head = sh(['git', '-C', '/repo', 'rev-parse', '--short', 'HEAD']).stdout.strip()
try:
    for pid in sorted(os.listdir(root)):
        if only and pid not in only:
            continue
        out = os.path.join(root, pid, 'out')
        for m in variants:
            diff = os.path.join(out, m + '.diff'); demo = os.path.join(out, m + '_demo_test.go')
            notes = os.path.join(out, m + '_notes.md')
            if not (os.path.exists(diff) and os.path.exists(demo)):
                continue
            sh('git checkout -q -- . && git clean -fdq', cwd=WT)
            pkgdir = 'pkg/buffer' if re.search(r'^package buffer', open(demo).read(), re.M) else '.'
            dst = os.path.join(WT, pkgdir, 'zz_%s_demo_test.go' % m)
            shutil.copy(demo, dst)
            clean = sh(['go', 'test', '-vet=off', '-count=1', './' + pkgdir + '/'], cwd=WT)
            os.remove(dst)
            if sh(['git', 'apply', diff], cwd=WT).returncode != 0:
                print(pid, m, 'APPLY-FAILED'); continue
            build = sh(['go', 'build', './...'], cwd=WT)
            suite = sh(['go', 'test', '-vet=off', '-count=1', './...'], cwd=WT)
            shutil.copy(demo, dst)
            mut = sh(['go', 'test', '-vet=off', '-count=1', './' + pkgdir + '/'], cwd=WT)
            os.remove(dst)
            ok = clean.returncode == 0 and build.returncode == 0 and suite.returncode == 0 and mut.returncode != 0
            print(pid, m, 'CONFIRMED' if ok else 'REJECTED', 'clean=%d build=%d suite=%d mutated=%d' % (clean.returncode, build.returncode, suite.returncode, mut.returncode), flush=True)
            if not ok:
                continue
            d = '/verif/seeded/%s-%s' % (pid, m)
            os.makedirs(d, exist_ok=True)
            shutil.copy(diff, d + '/patch.diff')
            shutil.copy(demo, d + '/demo_test.go.txt')
            title = ''
            if os.path.exists(notes):
                shutil.copy(notes, d + '/notes.md')
                for l in open(notes):
                    if l.startswith('#'):
                        title = l.strip(); break
            json.dump(dict(property=pid, variant=m,
                           source="independent sub-agent (%s) given only the property text, the one-line titles of the earlier changes for that property (to avoid repeating them) and a scratch worktree of /repo (HEAD %s)" % (os.environ.get('SEED_WAVE', 'later wave'), head),
                           needs_to_manifest=title or ('# %s' % m), demo_package_dir=pkgdir,
                           confirmed=dict(how="tools/intake.py in a scratch worktree outside /repo and /verif: demo passes on the clean tree; git apply; go build ./...; go test -vet=off -count=1 ./... (existing suite) passes; demo fails with the change",
                                          result="clean=%d build=%d suite=%d mutated=%d" % (clean.returncode, build.returncode, suite.returncode, mut.returncode))),
                      open(d + '/meta.json', 'w'), indent=1)
finally:
    sh(['git', '-C', '/repo', 'worktree', 'remove', '--force', WT])
