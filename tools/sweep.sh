#!/bin/bash
# unchanged-tree sweep: every registered check, quick tier, for the given seeds; prints non-PASS lines
cd /verif
for seed in "$@"; do
  for p in $(python3 -c "import sys; sys.path.insert(0,'/verif'); from props import PROPS; print(' '.join(sorted(PROPS)))"); do
    VERIF_SEED=$seed ./check.py $p quick | tail -1 | sed "s/^/seed=$seed /"
  done
done
