"""Turn the replay file of a caught violation into a corpus entry: corpus/<pid>/<name>.case
(one case line per line). Corpus cases run first on every later run of that property's check."""
import os, json

def harvest(replay_path, pid, name, root='/verif'):
    if not replay_path or not os.path.exists(replay_path):
        return 0
    rj = json.load(open(replay_path))
    lines = []
    if rj.get("group_cases"):
        lines += [g["case"] for g in rj["group_cases"]]
    elif rj.get("case"):
        lines.append(rj["case"])
    else:
        lines += [d["case"] for d in rj.get("correspondence_disagreements", [])[:3]]
    lines = [l.split(" || ")[0] for l in lines if l and l.startswith("id=") and len(l) < 200000]
    if not lines:
        return 0
    d = os.path.join(root, "corpus", pid)
    os.makedirs(d, exist_ok=True)
    with open(os.path.join(d, name + ".case"), "w") as f:
        for i, l in enumerate(lines):
            # give the case a stable id of its own
            parts = l.split(" ")
            parts[0] = "id=corpus-%s-%d" % (name, i)
            f.write(" ".join(parts) + "\n")
    return len(lines)
