#!/bin/bash
# run every registered check (quick tier) on the current tree; prints one line per check
cd /verif
for p in $(python3 -c "import sys; sys.path.insert(0,'/verif'); from props import PROPS; print(' '.join(sorted(PROPS)))"); do
  ./check.py $p ${1:-quick} | tail -1
done
