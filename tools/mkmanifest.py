#!/usr/bin/env python3
"""Regenerate MANIFEST.json from props.py (claimed checks) and properties.jsonl (everything else not_applicable)."""
import json, sys, os, subprocess
sys.path.insert(0, '/verif')
from props import PROPS
ids = [json.loads(l)['id'] for l in open('/verif/properties.jsonl')]
hooks = subprocess.run(['git', '-C', '/repo', 'log', '--format=%H', '--grep=^verif hooks'], stdout=subprocess.PIPE, text=True).stdout.split()
checks = []
for pid in ids:
    if pid not in PROPS:
        continue
    p = PROPS[pid]
    _tie = p.get("tie", [])
    _tietext = ""
    _tietech = ""
    if _tie:
        _tietext = (" Tie on translated code (DESIGN §4.3): the Go source of pkg/buffer%s is translated to Lean on every run "
                    "(go/translate -> Pw/Generated/Trans*.lean) and %d registered tie theorems (modules %s) prove, for every world, "
                    "that the translated functions compute what the model uses in their place; a change to that code re-checks these proofs."
                    % ((" / copy.go" if "TieCopy" in _tie else "") + (" / error.go" if "TieError" in _tie else "") +
                       (" / writer.go, row.go" if "TieDataWriter" in _tie else "") + (" / cache.go" if "TieCache" in _tie else "") +
                       (" / handshake.go" if "TieStartup" in _tie else ""),
                       len(p.get("tie_theorems", [])), ", ".join(_tie)))
        _tietech = " + tie theorems on Lean code translated from the Go source on every run"
    p = dict(p, level_text=p.get("level_text", "") + _tietext, technique=p.get("technique", "Lean 4 proof + differential correspondence") + _tietech)
    checks.append(dict(property_id=pid, quick_cmd="./check.py %s quick" % pid, thorough_cmd="./check.py %s thorough" % pid,
                       evidence_file="evidence/%s.json" % pid, replay_cmd_template="./check.py %s quick --replay {path}" % pid,
                       engine="lean4+differential",
                       level_claimed=dict(category="proof", text=p.get("level_text", ""), design_ref=p.get("design_ref", "DESIGN §7")),
                       level_note=p.get("level_note", ""), technique=p.get("technique", "Lean 4 proof + differential correspondence")))
na = [dict(property_id=pid, reason="check under construction in this commit (Lean model and campaign exist for the session core; the property's theorem module has not landed yet) - see DESIGN.md §7") for pid in ids if pid not in PROPS]
m = dict(version=1, setup_cmd="./setup.sh",
         hooks=dict(guard="verif", enable="go build -tags verif (harness module: replace github.com/jeroenrinzema/psql-wire => /repo)",
                    baseline_off_cmd="cd /repo && GOFLAGS=-mod=mod GOPROXY=off GOSUMDB=off GOTOOLCHAIN=local go test -vet=off -count=1 ./...",
                    source_commits=hooks, add_only=True),
         engines=[dict(name="lean4+differential", path="lean/ go/harness go/extract go/translate check.py decide.py props.py", serves_properties=[c["property_id"] for c in checks],
                       kind_free_text="Lean 4 model + theorems (lake project, core only), go/ast fact extractor regenerating Pw/Generated/Facts.lean, Go-to-Lean translator (go/translate) regenerating Pw/Generated/Trans*.lean from pkg/buffer, copy.go, error.go, writer.go/row.go, cache.go and handshake.go with tie theorems against the model, Go differential harness driving the real server in-process, Lean line-protocol driver evaluating model and property oracles")],
         checks=checks,
         notes="All checks: ./check.py <id> <quick|thorough>; VERIF_SEED selects the PRNG seed. See DESIGN.md.",
         not_applicable=na)
json.dump(m, open('/verif/MANIFEST.json', 'w'), indent=1)
print(len(checks), "checks,", len(na), "not applicable")
