#!/usr/bin/env python3
"""One-off helper: print `example : Facts.x = <current value> := rfl` lines for the named facts.
The output was reviewed by hand and committed as Pw/Conformance/*.lean (the expectations the
proofs rely on); it is NOT run by the checks."""
import re, sys
src = open('/verif/lean/Pw/Generated/Facts.lean').read()
defs = {}
for m in re.finditer(r"^def (\w+) : ([^\n]*?) := (.*?)(?=^def |^end )", src, re.S | re.M):
    defs[m.group(1)] = (m.group(2), m.group(3).strip())
for name in sys.argv[1:]:
    ty, val = defs[name]
    print("example : Facts.%s = %s := rfl\n" % (name, val if len(val) < 80 else "\n  " + val))
