#!/usr/bin/env python3
"""Run the registered checks against every seeded change: apply to /repo, run the quick check of the
seeded property, undo. Writes seeded/results.json.  usage: seedtest.py [Cxx ...]"""
import os, sys, json, subprocess, time
sys.path.insert(0, '/verif')
from props import PROPS
sys.path.insert(0, '/verif/tools')
from harvest import harvest
want = set(sys.argv[1:])
out = {}
rp = '/verif/seeded/results.json'
if os.path.exists(rp):
    out = json.load(open(rp))
for d in sorted(os.listdir('/verif/seeded')):
    p = '/verif/seeded/' + d
    if not os.path.isdir(p) or not os.path.exists(p + '/patch.diff'): continue
    pid = d.split('-')[0]
    if want and pid not in want and d not in want: continue
    if pid not in PROPS:
        out[d] = dict(status="no-check-yet"); continue
    assert subprocess.run(['git', '-C', '/repo', 'status', '--porcelain'], stdout=subprocess.PIPE, text=True).stdout == '', "repo dirty"
    r = subprocess.run(['git', '-C', '/repo', 'apply', p + '/patch.diff'])
    if r.returncode != 0:
        out[d] = dict(status="apply-failed"); continue
    try:
        t = time.time()
        r = subprocess.run(['./check.py', pid, 'quick'], cwd='/verif', stdout=subprocess.PIPE, stderr=subprocess.PIPE, text=True)
        viol = [l for l in r.stdout.split('\n') if l.startswith('VIOLATION')]
        out[d] = dict(status="caught" if r.returncode == 1 and viol else "MISSED", rc=r.returncode, line=(viol or [''])[0],
                      concrete=bool(viol) and 'no-failing-input-found' not in viol[0], wall_s=round(time.time() - t, 1),
                      summary=r.stdout.strip().split('\n')[-1])
        if viol and 'no-failing-input-found' not in viol[0]:
            rp_file = [f[len('replay='):] for f in viol[0].split() if f.startswith('replay=')]
            if rp_file:
                out[d]['corpus_cases'] = harvest(os.path.join('/verif', rp_file[0]), pid, 'seed-' + d)
    finally:
        subprocess.run(['git', '-C', '/repo', 'checkout', '--', '.'])
    print(d, out[d]['status'], out[d].get('line', ''), flush=True)
json.dump(out, open(rp, 'w'), indent=1)
# the evidence files must describe the UNCHANGED tree: re-run the touched checks on the clean tree
touched = sorted({d.split('-')[0] for d in out if (not want or d.split('-')[0] in want or d in want) and d.split('-')[0] in PROPS})
for pid in touched:
    subprocess.run(['./check.py', pid, 'quick'], cwd='/verif', stdout=subprocess.DEVNULL)
subprocess.run(['rm', '-rf', '/verif/replays'])
