#!/usr/bin/env python3
"""Entry point of every check:  check.py <Cxx> <quick|thorough> [--replay FILE]

Steps (DESIGN §5): regenerate facts from /repo, build the property's Lean obligations and
audit them, build the Go harness against /repo's working tree (tag verif), run the property's
campaigns on the real code, pipe the results through the Lean driver (model + oracles),
decide, write evidence/<Cxx>.json and replay files.
"""
import sys, os, json, subprocess, time, fcntl, re, hashlib, shutil

ROOT = os.path.dirname(os.path.abspath(__file__))
LEAN = os.path.join(ROOT, "lean")
HARNESS_SRC = os.path.join(ROOT, "go", "harness")
EXTRACT_SRC = os.path.join(ROOT, "go", "extract")
TRANSLATE_SRC = os.path.join(ROOT, "go", "translate")
WORK = os.path.join(ROOT, "work")
BIN = os.path.join(ROOT, "bin")
REPO = os.environ.get("VERIF_REPO", "/repo")
GOENV = dict(os.environ, GOFLAGS="-mod=mod", GOPROXY="off", GOSUMDB="off", GOTOOLCHAIN="local",
             CGO_ENABLED=os.environ.get("CGO_ENABLED", "0"))
NCPU = os.cpu_count() or 4

sys.path.insert(0, ROOT)
from props import PROPS  # noqa: E402


def sh(cmd, **kw):
    return subprocess.run(cmd, stdout=subprocess.PIPE, stderr=subprocess.STDOUT, text=True, **kw)


def log(*a):
    print(*a, file=sys.stderr, flush=True)


# ---------------------------------------------------------------- build steps

def regen_facts():
    """go/ast fact extractor -> lean/Pw/Generated/Facts.lean (only rewritten when changed)."""
    exe = os.path.join(BIN, "pwextract")
    r = sh(["go", "build", "-o", exe, "."], cwd=EXTRACT_SRC, env=GOENV)
    if r.returncode != 0:
        return False, "extractor build failed:\n" + r.stdout
    r = subprocess.run([exe, REPO], stdout=subprocess.PIPE, stderr=subprocess.PIPE, text=True)
    if r.returncode != 0:
        return False, "extractor failed:\n" + r.stderr
    target = os.path.join(LEAN, "Pw", "Generated", "Facts.lean")
    old = open(target).read() if os.path.exists(target) else None
    if old != r.stdout:
        os.makedirs(os.path.dirname(target), exist_ok=True)
        with open(target, "w") as f:
            f.write(r.stdout)
    return True, ""


def regen_trans():
    """Go-to-Lean translator (go/translate) -> lean/Pw/Generated/Trans.lean (pkg/buffer) and TransCopy.lean
    (copy.go of the root package) TransError.lean (the ErrorResponse builder of error.go), TransWriter.lean (the result writer of writer.go/row.go)
    TransCache.lean (the statement and portal caches of cache.go) and TransStartup.lean (readVersion /
    readClientParameters of handshake.go) as executable
    Lean definitions, re-derived from the working tree on every run (each file only rewritten when changed)."""
    exe = os.path.join(BIN, "pwtranslate")
    r = sh(["go", "build", "-o", exe, "."], cwd=TRANSLATE_SRC, env=GOENV)
    if r.returncode != 0:
        return False, "translator build failed:\n" + r.stdout
    # on failure (the package no longer parses / type-checks for the translator) a stub is left whose
    # `untranslatable` is non-empty, so that the tie modules fail
    jobs = [
        ([exe, REPO], "Trans.lean",
         "/- GENERATED: translation failed -/\nimport Pw.Go.Rt\nnamespace Pw.Trans\n"
         "def untranslatable : List String := [\"translator failed\"]\nend Pw.Trans\n"),
        ([exe, "-copy", REPO], "TransCopy.lean",
         "/- GENERATED: translation failed -/\nimport Pw.Generated.Trans\nimport Pw.Go.RtCopy\nnamespace Pw.TransCopy\n"
         "def untranslatable : List String := [\"translator failed\"]\nend Pw.TransCopy\n"),
        ([exe, "-error", REPO], "TransError.lean",
         "/- GENERATED: translation failed -/\nimport Pw.Generated.Trans\nimport Pw.Go.RtError\nnamespace Pw.TransError\n"
         "def untranslatable : List String := [\"translator failed\"]\nend Pw.TransError\n"),
        ([exe, "-writer", REPO], "TransWriter.lean",
         "/- GENERATED: translation failed -/\nimport Pw.Generated.Trans\nimport Pw.Go.RtWriter\nnamespace Pw.TransWriter\n"
         "def untranslatable : List String := [\"translator failed\"]\nend Pw.TransWriter\n"),
        ([exe, "-cache", REPO], "TransCache.lean",
         "/- GENERATED: translation failed -/\nimport Pw.Go.RtCache\nnamespace Pw.TransCache\n"
         "def untranslatable : List String := [\"translator failed\"]\nend Pw.TransCache\n"),
        ([exe, "-startup", REPO], "TransStartup.lean",
         "/- GENERATED: translation failed -/\nimport Pw.Generated.Trans\nimport Pw.Go.RtStartup\nnamespace Pw.TransStartup\n"
         "def untranslatable : List String := [\"translator failed\"]\nend Pw.TransStartup\n"),
    ]
    ok, msgs = True, []
    for cmd, name, stub in jobs:
        r = subprocess.run(cmd, stdout=subprocess.PIPE, stderr=subprocess.PIPE, text=True, env=GOENV)
        target = os.path.join(LEAN, "Pw", "Generated", name)
        if r.returncode != 0:
            out = stub
            ok = False
            msgs.append("translator failed (%s):\n%s" % (name, r.stderr[-1500:]))
        else:
            out = r.stdout
        old = open(target).read() if os.path.exists(target) else None
        if old != out:
            os.makedirs(os.path.dirname(target), exist_ok=True)
            with open(target, "w") as f:
                f.write(out)
    return ok, "\n".join(msgs)


def lake_build(targets):
    r = sh(["lake", "build"] + targets, cwd=LEAN)
    return r.returncode == 0, r.stdout


def build_harness(race=False):
    exe = os.path.join(BIN, "pwharness")
    shutil.copyfile(os.path.join(REPO, "go.sum"), os.path.join(HARNESS_SRC, "go.sum"))
    r = sh(["go", "build", "-tags", "verif", "-o", exe, "."], cwd=HARNESS_SRC, env=GOENV)
    if r.returncode == 0 and race:
        # the race detector needs cgo
        r = sh(["go", "build", "-race", "-tags", "verif", "-o", exe + "-race", "."], cwd=HARNESS_SRC,
               env=dict(GOENV, CGO_ENABLED="1"))
    return r.returncode == 0, r.stdout


RACE = False


FORBIDDEN = re.compile(r"\bsorry\b|\badmit\b|^\s*axiom\s|native_decide|bv_decide|implemented_by|\bunsafe\s|maxHeartbeats\s+0")


def grep_forbidden():
    hits = []
    for d, _, files in os.walk(os.path.join(LEAN, "Pw")):
        for fn in files:
            if not fn.endswith(".lean"):
                continue
            p = os.path.join(d, fn)
            in_block = 0
            for i, line in enumerate(open(p), 1):
                code = line
                # strip block comments (non-nested handling is enough for our sources) and line comments
                if in_block:
                    if "-/" in code:
                        code = code.split("-/", 1)[1]
                        in_block = 0
                    else:
                        continue
                while "/-" in code:
                    pre, rest = code.split("/-", 1)
                    if "-/" in rest:
                        code = pre + rest.split("-/", 1)[1]
                    else:
                        code = pre
                        in_block = 1
                code = re.sub(r'"(\\.|[^"\\])*"', '""', code)   # string literals are data, not proof terms
                code = code.split("--", 1)[0]
                if FORBIDDEN.search(code):
                    hits.append("%s:%d: %s" % (os.path.relpath(p, ROOT), i, line.strip()))
    return hits


ALLOWED_AXIOMS = {"propext", "Quot.sound", "Classical.choice"}


def audit_axioms(module, theorems, extra_modules=()):
    """#print axioms for every property theorem; returns (ok, report, per-theorem axioms)."""
    if not theorems:
        return True, "", {}
    src = "import %s\n" % module + "".join("import %s\n" % m for m in extra_modules) + "".join("#print axioms %s\n" % t for t in theorems)
    path = os.path.join(WORK, "audit_%s.lean" % module.replace(".", "_"))
    with open(path, "w") as f:
        f.write(src)
    r = sh(["lake", "env", "lean", path], cwd=LEAN)
    out = r.stdout
    per = {}
    bad = []
    # output: "'name' depends on axioms: [a, b]" or "'name' does not depend on any axioms"
    for m in re.finditer(r"'([^']+)' (depends on axioms: \[([^\]]*)\]|does not depend on any axioms)", out, re.S):
        name = m.group(1)
        axs = [a.strip() for a in (m.group(3) or "").replace("\n", " ").split(",") if a.strip()]
        per[name] = axs
        for a in axs:
            if a not in ALLOWED_AXIOMS:
                bad.append("%s uses %s" % (name, a))
    missing = [t for t in theorems if t not in per and t.split(".")[-1] not in [k.split(".")[-1] for k in per]]
    ok = r.returncode == 0 and not bad and not missing
    rep = ""
    if not ok:
        rep = "axiom audit failed: rc=%d bad=%s missing=%s\n%s" % (r.returncode, bad, missing, out[-2000:])
    return ok, rep, per


# ---------------------------------------------------------------- campaigns

def run_impl(case_lines, tag):
    """Run case lines through the real code in child processes (crash isolated).
    Returns list of 'case || result' lines; a crash yields 'case || out= ev= end=crash panic=<hex>'."""
    exe = os.path.join(BIN, "pwharness-race" if RACE else "pwharness")
    results = []
    pending = list(case_lines)
    while pending:
        p = subprocess.Popen([exe, "run"], stdin=subprocess.PIPE, stdout=subprocess.PIPE, stderr=subprocess.PIPE,
                             text=True, env=dict(GOENV, GOMEMLIMIT="6GiB", GOMAXPROCS="4",
                                                 GORACE="halt_on_error=1 exitcode=66"))
        out, err = p.communicate("\n".join(pending) + "\n")
        done = 0
        started = None
        for line in out.split("\n"):
            if line.startswith("START "):
                started = line[6:]
            elif " || " in line:
                results.append(line)
                done += 1
                started = None
        if p.returncode == 0 and done == len(pending):
            break
        if done >= len(pending):
            # every case was answered, yet the child exited non-zero: a report printed at exit
            # (race detector, runtime fatal error in a leftover goroutine). Blame the last case.
            done = len(pending) - 1
            results.pop()
        # the child died while running pending[done]
        crashed = pending[done]
        m = re.search(r"(WARNING: DATA RACE|panic: .*|fatal error: .*)", err)
        what = (m.group(1) if m else "exit %s" % p.returncode)[:300]
        frames = re.findall(r"psql-wire[^\s]*\.([\w\.\(\)\*]+)\(", err)[:4]
        results.append("%s || out= ev= end=crash panic=%s" % (crashed, (what + " @ " + ",".join(frames)).encode().hex()))
        pending = pending[done + 1:]
    return results


def shard(lst, n):
    k = max(1, (len(lst) + n - 1) // n)
    return [lst[i:i + k] for i in range(0, len(lst), k)]


def run_campaign(camp, seed, n, extra_args=()):
    exe = os.path.join(BIN, "pwharness")
    r = subprocess.run([exe, "gen", "-camp", camp, "-seed", str(seed), "-n", str(n)] + list(extra_args),
                       stdout=subprocess.PIPE, stderr=subprocess.PIPE, text=True, env=GOENV)
    if r.returncode != 0:
        raise RuntimeError("generator failed: " + r.stderr)
    cases = [l for l in r.stdout.split("\n") if l]
    return cases


def run_cases(cases):
    """impl (parallel shards) -> driver; returns list of (case_line, impl_result, driver_kv)."""
    from concurrent.futures import ThreadPoolExecutor
    shards = shard(cases, max(1, NCPU // 2))
    with ThreadPoolExecutor(max_workers=len(shards)) as ex:
        parts = list(ex.map(lambda s: run_impl(s, ""), shards))
    lines = [l for p in parts for l in p]
    drv = os.path.join(LEAN, ".lake", "build", "bin", "pwdriver")
    def for_driver(l):
        # inputs of tens of megabytes (the 16 MiB default-limit boundary) are not handed to the
        # list-based Lean model: the driver only evaluates the expectation oracle on the real output
        if len(l) > 4000000 and " in=" in l:
            c, r = l.split(" || ", 1)
            c = re.sub(r" in=[0-9a-f]*", " in=", c, count=1) + " nomodel=1"
            return c + " || " + r
        return l
    dshards = shard(lines, NCPU)
    def big_stack():
        # results of a changed library can be huge (millions of list elements): give the driver a deep stack
        import resource
        try:
            resource.setrlimit(resource.RLIMIT_STACK, (1 << 30, resource.RLIM_INFINITY))
        except (ValueError, OSError):
            pass

    def drive(sh_lines):
        p = subprocess.run([drv], input="\n".join(for_driver(l) for l in sh_lines) + "\n", stdout=subprocess.PIPE,
                           stderr=subprocess.PIPE, text=True, preexec_fn=big_stack)
        outl = [l for l in p.stdout.split("\n") if l]
        if p.returncode == 0 and len(outl) == len(sh_lines):
            return outl
        # the driver died on one of these lines (stack overflow / out of memory on a result no unchanged tree
        # produces): find it by bisection; such a case counts as a model/implementation disagreement whose
        # oracle could not be evaluated
        if len(sh_lines) == 1:
            cid = kv(sh_lines[0].split(" || ", 1)[0]).get("id", "?")
            return ["id=%s status=diff wf=1 oracle=ok why=driver-could-not-evaluate-this-result:%s" % (
                cid, (p.stderr.strip().split("\n") or ["?"])[-1].replace(" ", "-")[:80])]
        mid = len(sh_lines) // 2
        return drive(sh_lines[:mid]) + drive(sh_lines[mid:])
    with ThreadPoolExecutor(max_workers=len(dshards)) as ex:
        dparts = list(ex.map(drive, dshards))
    dlines = [l for p in dparts for l in p]
    if len(dlines) != len(lines):
        raise RuntimeError("driver returned %d lines for %d cases" % (len(dlines), len(lines)))
    out = []
    for l, d in zip(lines, dlines):
        c, r = l.split(" || ", 1)
        out.append((c, r, kv(d)))
    return out


def kv(s):
    d = {}
    for f in s.split(" "):
        if "=" in f:
            k, v = f.split("=", 1)
            d[k] = v
    return d


# ---------------------------------------------------------------- main

def main():
    if len(sys.argv) < 3:
        print("usage: check.py <Cxx> <quick|thorough> [--replay FILE]")
        return 2
    pid, tier = sys.argv[1], sys.argv[2]
    replay = None
    if "--replay" in sys.argv:
        replay = sys.argv[sys.argv.index("--replay") + 1]
    seed = int(os.environ.get("VERIF_SEED", "1"))
    prop = PROPS[pid]
    os.makedirs(WORK, exist_ok=True)
    os.makedirs(BIN, exist_ok=True)
    os.makedirs(os.path.join(ROOT, "evidence"), exist_ok=True)
    os.makedirs(os.path.join(ROOT, "replays"), exist_ok=True)
    lock = open(os.path.join(ROOT, ".lock"), "w")
    fcntl.flock(lock, fcntl.LOCK_EX)
    t0 = time.time()
    from decide import decide  # noqa: E402
    return decide(pid, tier, seed, prop, replay, t0, sys.modules[__name__])


if __name__ == "__main__":
    sys.exit(main())
