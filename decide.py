"""Verdict logic shared by all checks (DESIGN §5)."""
import os, json, time, hashlib, glob, shutil, subprocess, fcntl


def decide(pid, tier, seed, prop, replay, t0, ck):
    ROOT = ck.ROOT
    ev_path = os.path.join(ROOT, "evidence", pid + ".json")
    if os.path.exists(ev_path):
        os.remove(ev_path)
    known = load_known(ROOT)
    obligations = []   # (name, ok, detail)
    notes = []

    # ---- 1. build phase (serialised by the lock taken in check.py)
    ok, msg = ck.regen_facts()
    obligations.append(("facts:extracted-from-/repo", ok, msg))
    tie_mods = ["Pw.Props." + m for m in prop.get("tie", [])]
    tie_thms = list(prop.get("tie_theorems", []))
    if tie_mods:
        tok, tmsg = ck.regen_trans()
        obligations.append(("trans:pkg/buffer and copy.go translated from /repo (go/translate)", tok, tmsg))
    targets = ["Pw.Conformance." + c for c in prop.get("conformance", [])] + [prop["module"]] + tie_mods
    bok, bout = ck.lake_build(targets)
    failed_mods = sorted(set(_failed_modules(bout))) if not bok else []
    obligations.append(("lean:build %s" % " ".join(targets), bok, "" if bok else _tail(bout)))
    dok, dout = ck.lake_build(["pwdriver"])
    if not dok:
        obligations.append(("lean:build pwdriver", False, _tail(dout)))
    hits = ck.grep_forbidden()
    obligations.append(("lean:no sorry/admit/axiom/native_decide/bv_decide/implemented_by/unsafe/maxHeartbeats 0", not hits, "\n".join(hits)))
    axioms = {}
    if bok:
        aok, arep, axioms = ck.audit_axioms(prop["module"], prop["theorems"] + tie_thms, tie_mods)
        obligations.append(("lean:#print axioms ⊆ {propext, Quot.sound, Classical.choice} for %d theorems" % len(prop["theorems"] + tie_thms), aok, arep))
        for t in prop["theorems"]:
            obligations.append(("theorem:" + t, True, ""))
        for t in tie_thms:
            obligations.append(("tie-theorem:" + t, True, ""))
    else:
        for t in prop["theorems"]:
            obligations.append(("theorem:" + t, False, "module did not build"))
        for t in tie_thms:
            obligations.append(("tie-theorem:" + t, False, "module did not build"))
    if tier == "thorough" and bok:
        for mod in [prop["module"]] + tie_mods:
            r = ck.sh(["lake", "env", "leanchecker", mod], cwd=ck.LEAN)
            obligations.append(("leanchecker %s" % mod, r.returncode == 0, "" if r.returncode == 0 else _tail(r.stdout)))
    ck.RACE = bool(prop.get("race"))
    hok, hout = ck.build_harness(race=ck.RACE)
    obligations.append(("go:harness builds against /repo working tree (-tags verif)", hok, "" if hok else _tail(hout)))

    stats = dict(evaluations=0, ok=0, diff=0, skip=0, rejected=0, crash=0)
    samples = []
    distinct = set()
    rejected = []    # (case, result, drv, why)
    diffs = []
    dist = {}
    camp_stats = {}

    def account(rows, camp):
        cs = camp_stats.setdefault(camp, dict(cases=0, ok=0, diff=0, skip=0, rejected=0))
        for c, r, d in rows:
            stats["evaluations"] += 1
            cs["cases"] += 1
            st = d.get("status", "?")
            rk = ck.kv(r)
            if rk.get("end") == "crash":
                stats["crash"] += 1
            if st == "ok":
                stats["ok"] += 1; cs["ok"] += 1
            elif st == "skip":
                stats["skip"] += 1; cs["skip"] += 1
            else:
                stats["diff"] += 1; cs["diff"] += 1
                diffs.append((c, r, d))
            why = None
            if d.get("oracle", "ok") != "ok":
                why = d.get("why", "oracle")
            if prop.get("wf_oracle", False) and d.get("wf") == "0":
                why = "C02:output-not-wellformed"
            if rk.get("end") in ("crash", "hang") and prop.get("crash_oracle", True):
                why = "process-" + rk.get("end") + ":" + bytes.fromhex(rk.get("panic", "")).decode(errors="replace")
            if why:
                stats["rejected"] += 1; cs["rejected"] += 1
                rejected.append((c, r, d, why))
            if nontrivial(rk, d):
                distinct.add(hashlib.sha1((rk.get("out", "") + "|" + rk.get("ev", "")).encode()).hexdigest())
            for e in rk.get("ev", "").split(";"):
                if e:
                    dist[e[:1]] = dist.get(e[:1], 0) + 1
            if len(samples) < 3 and nontrivial(rk, d):
                samples.append(dict(case=_short(c), impl=_short(r), driver=d))

    if hok and dok:
        # ---- 2. corpus first, then the campaigns
        if replay:
            rj = json.load(open(replay))
            if rj.get("group_cases"):
                lines = [g["case"] for g in rj["group_cases"]]
            else:
                lines = [rj["case"]] if rj.get("case") else [d["case"] for d in rj.get("correspondence_disagreements", [])]
            rows = ck.run_cases([l.split(" || ")[0] for l in lines])
            post = prop.get("group_oracle")
            if post:
                rows = post(rows, ck)
            account(rows, "replay")
        else:
            corpus = []
            for f in sorted(glob.glob(os.path.join(ROOT, "corpus", pid, "*.case"))):
                corpus += [l.strip().split(" || ")[0] for l in open(f) if l.strip().startswith("id=")]
            if corpus:
                account(ck.run_cases(corpus), "corpus")
            for camp, nq, nt in prop["campaigns"]:
                n = nq if tier == "quick" else nt
                if n <= 0:
                    continue
                seeds = [seed] if tier == "quick" else [seed * 4 + i for i in range(4)]
                for sd in seeds:
                    cases = ck.run_campaign(camp, sd, max(1, n // len(seeds)))
                    rows = ck.run_cases(cases)
                    post = prop.get("group_oracle")
                    if post:
                        rows = post(rows, ck)
                    account(rows, camp)
            # ---- 3. a broken obligation or correspondence triggers the wider search
            broken = [o for o in obligations if not o[1]]
            if (broken or diffs) and not rejected:
                for camp, nq, nt in prop["campaigns"]:
                    n = (nq if tier == "quick" else nt) * 3
                    if n <= 0:
                        continue
                    cases = ck.run_campaign(camp, seed + 7919, n)
                    rows = ck.run_cases(cases)
                    post = prop.get("group_oracle")
                    if post:
                        rows = post(rows, ck)
                    account(rows, camp + ":search")

    # ---- verdict
    broken = [o for o in obligations if not o[1]]
    violations = 0
    lines_out = []
    kf_printed = set()
    unknown_rej = []
    for c, r, d, why in rejected:
        k = match_known(known, pid, why, c)
        if k:
            if k["id"] not in kf_printed:
                kf_printed.add(k["id"])
                lines_out.append("KNOWN-FINDING: property=%s %s" % (pid, k["what"]))
        else:
            unknown_rej.append((c, r, d, why))
    rc = 0
    if unknown_rej:
        c, r, d, why = min(unknown_rej, key=lambda x: len(x[0]))
        det = dict(kind="failing-input", why=why, case=c, impl=r, driver=d,
                   replay_cmd="./check.py %s quick --replay <this file>" % pid)
        if "group=" in why:
            # a group violation (same stream, different segmentation / unread bytes): keep the whole group
            det["group_cases"] = [dict(case=c2, impl=r2) for c2, r2, d2, w2 in unknown_rej if w2 == why]
        path = write_replay(ROOT, pid, seed, det, c, r)
        lines_out.append("VIOLATION property=%s replay=%s" % (pid, path))
        violations = len(unknown_rej)
        rc = 1
    elif broken or diffs:
        detail = dict(kind="no-failing-input-found",
                      broken_obligations=[dict(name=o[0], detail=o[2][-3000:]) for o in broken],
                      failed_lean_modules=failed_mods,
                      correspondence_disagreements=[dict(case=c, impl=r, model=d) for c, r, d in diffs[:5]],
                      note="the property's oracle accepted the implementation's output on every explored case, but the proof "
                           "obligations / model correspondence listed here no longer check, so the property is no longer shown to hold")
        c0, r0 = (diffs[0][0], diffs[0][1]) if diffs else ("", "")
        path = write_replay(ROOT, pid, seed, detail, c0, r0)
        lines_out.append("VIOLATION property=%s replay=%s no-failing-input-found" % (pid, path))
        violations = 1
        rc = 1

    n_obl = len(obligations)
    n_dis = len([o for o in obligations if o[1]])
    evidence = dict(
        property_id=pid, tier=tier, seed=seed, level="proof",
        coverage=dict(
            obligations=n_obl, discharged=n_dis,
            checker_cmd="cd /verif/lean && lake build %s %s pwdriver && lake env lean <audit file with #print axioms>%s" % (
                " ".join("Pw.Conformance." + c for c in prop.get("conformance", [])), prop["module"], " && lake env leanchecker " + prop["module"] if tier == "thorough" else ""),
            trusted_base=["Lean 4.33.0 kernel", "axioms used: " + ", ".join(sorted({a for v in axioms.values() for a in v})) if axioms else "axioms: none reported",
                          "go/ast fact extractor (go/extract) + Pw/Conformance.lean",
                          "differential harness (go/harness): in-memory transport, scripted callbacks, canonicalisation (ParameterStatus runs sorted; pgx error texts -> class tokens)",
                          "modelled not verified: Go slice/map/string/int semantics on amd64, bufio/io.ReadFull, pgx pgtype codecs, crypto/tls, sync, context"],
            theorems=prop["theorems"], theorem_axioms=axioms,
            obligation_list=[dict(name=o[0], ok=o[1]) for o in obligations],
            evaluations=stats["evaluations"], distinct_nontrivial=len(distinct),
            traces_validated_against_impl=stats["ok"],
            disagreements=stats["diff"], skipped_unsupported_by_model=stats["skip"], oracle_rejections=stats["rejected"],
            rule="cases are generated from VERIF_SEED by go/harness generators (%s); a case is non-trivial when the session got past startup (server wrote at least two messages or invoked a callback); distinct = distinct (output,event-trace) pairs" % ", ".join(c[0] for c in prop["campaigns"]),
            samples=samples or [dict(note="no campaign ran (build failure)")],
            campaigns=camp_stats, event_kind_histogram=dist,
            explanation=prop.get("explanation", ""),
        ),
        assumptions=prop.get("assumptions", []),
        wall_s=round(time.time() - t0, 2), violations=violations)
    with open(ev_path, "w") as f:
        json.dump(evidence, f, indent=1)
    for l in lines_out:
        print(l)
    print("%s %s: obligations %d/%d, cases %d (ok %d, diff %d, skip %d, rejected %d), distinct non-trivial %d, %.1fs -> %s" % (
        pid, tier, n_dis, n_obl, stats["evaluations"], stats["ok"], stats["diff"], stats["skip"], stats["rejected"],
        len(distinct), time.time() - t0, "FAIL" if rc else "PASS"))
    return rc


def nontrivial(rk, d):
    out = rk.get("out", "")
    return out.count(".") >= 1 or bool(rk.get("ev"))


def _short(s, n=600):
    return s if len(s) <= n else s[:n] + "…(%d chars)" % len(s)


def _tail(s, n=3000):
    return s[-n:]


def _failed_modules(out):
    import re
    return re.findall(r"^- (\S+)$", out, re.M)


def load_known(root):
    p = os.path.join(root, "known_findings.json")
    if not os.path.exists(p):
        return []
    return json.load(open(p)).get("findings", [])


def match_known(known, pid, why, case):
    for k in known:
        if k.get("status") != "open" or k.get("property") != pid:
            continue
        if k.get("why_prefix") and why.startswith(k["why_prefix"]):
            return k
    return None


def write_replay(root, pid, seed, detail, case, impl):
    os.makedirs(os.path.join(root, "replays"), exist_ok=True)
    i = 0
    while True:
        path = os.path.join(root, "replays", "%s-%d-%d.json" % (pid, seed, i))
        if not os.path.exists(path):
            break
        i += 1
    detail = dict(detail)
    detail.setdefault("case", case)
    detail.setdefault("impl", impl)
    with open(path, "w") as f:
        f.write(json.dumps(detail, indent=1) + "\n")
    return os.path.relpath(path, root)
